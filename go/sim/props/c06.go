package props

import (
	"context"
	crand "crypto/rand"
	"encoding/json"
	"fmt"
	"sort"
	"strings"
	"sync"
	"time"

	"tunnox-core/internal/cloud/models"
	"tunnox-core/internal/cloud/repos"
	"tunnox-core/internal/cloud/services"
	"tunnox-core/internal/cloud/stats"
	"tunnox-core/internal/constants"
	coreerrors "tunnox-core/internal/core/errors"
	"tunnox-core/internal/core/idgen"
	"tunnox-core/internal/core/storage/types"
	"tunnox-core/verifsim/simrt"
	"tunnox-core/verifsim/simstore"
)

// C06 — a connection code creates at most one mapping, and only while valid.
//
// World: 1-3 nodes, each with its own real conncode.Service,
// ConnectionCodeRepository, PortMappingRepo, PortMappingService and IDManager,
// all on one shared backend (real memory backend or real Redis backend over
// miniredis) through per-node simstore handles. Callers are harness tasks that
// invoke CreateConnectionCode / ActivateConnectionCode / RevokeConnectionCode
// exactly as the command handlers do.
//
// The oracle is written from the property text. It keeps its own list of calls
// (who, which code, which unique listen address, invoke/return instants and
// stamps, result) and inspects the final store through the raw backend:
// every port-mapping record is attributed to a code by the code's unique
// target address and to a call by the call's unique listen address.

// ---- generated case -----------------------------------------------------

type c06code struct {
	idx     int
	target  int64
	addr    string // tcp://10.9.<i>.1:<port>, unique per code
	host    string
	port    int
	proto   string
	ttl     time.Duration
	mapDur  time.Duration
	code    string
	id      string
	expLo   time.Duration // earliest instant the code can expire (create invoke + ttl)
	expHi   time.Duration // latest instant the code can expire (create return + ttl)
	created bool
	node    int // node through which the code was generated
	genInv  int64
	genRet  int64
	genErr  error
}

type c06call struct {
	name   string
	kind   string // activate | revoke
	code   int
	client int64
	node   int
	addr   string // unique listen address of this call
	port   int
	valid  bool // listen address is well formed
	delay  time.Duration
	retry  bool

	started, finished, crashed bool
	inv, ret                   int64
	tInv, tRet                 time.Duration
	wBefore, wAfter            int // node write counters around the call
	oBefore, oAfter            int // node stall-op counters around the call
	m                          *models.PortMapping
	err                        error
	snap                       map[string]bool // revoke: mapping ids of the code observed after the successful return
}

func (c *c06call) ok() bool { return c.finished && c.err == nil }

func (c *c06call) outcome() string {
	switch {
	case c.crashed:
		return "crashed"
	case !c.started:
		return "not-started"
	case !c.finished:
		return "unfinished"
	case c.err != nil:
		return "err[" + string(coreerrors.GetCode(c.err)) + "]"
	case c.m != nil:
		return "ok:" + c.m.ID
	}
	return "ok"
}

type c06node struct {
	name     string
	st       *simstore.Store
	svc      *services.ConnectionCodeService
	stallAt  int
	stallFor time.Duration
	opCnt    int
	pendOp   string // operation announced by Filter, about to be applied
	pendKey  string
}

type c06run struct {
	w    *simrt.World
	ctx  context.Context
	stor types.Storage
	mem  interface {
		QueryByPrefix(prefix string, limit int) (map[string]string, error)
	}
	rd    *simstore.Redis
	nodes []*c06node
	codes []*c06code
	calls []*c06call
	oplog []string
	quota int
	stats bool
	fault string // none | error | crash | stall
	fNode int
	fK    int
	fDur  time.Duration
	// appeared: instant at which the primary record of a mapping was first written
	// to the shared store (observed at the storage boundary, after any stall)
	appeared map[string]time.Duration
	genMode  string // sequential | concurrent | burst
}

func (r *c06run) logf(format string, a ...any) {
	r.oplog = append(r.oplog, fmt.Sprintf("%4d %9s ", len(r.oplog), r.w.Now().Truncate(time.Millisecond))+fmt.Sprintf(format, a...))
}

func (r *c06run) newNode(name string) *c06node {
	w := r.w
	n := &c06node{name: name}
	st := simstore.New(w, name, r.stor)
	st.Filter = func(op, key string) bool {
		r.logf("%s %s %s", name, op, strings.TrimPrefix(key, "tunnox:"))
		n.pendOp, n.pendKey = op, key
		return true
	}
	st.Sync = func() {
		op, key := n.pendOp, n.pendKey // no yield between Filter and Sync
		n.opCnt++
		if n.stallAt > 0 && n.opCnt == n.stallAt {
			w.Fault("store.stall")
			r.logf("%s STALL %v", name, n.stallFor)
			w.Sleep(n.stallFor)
			r.logf("%s resumes %s %s", name, op, strings.TrimPrefix(key, "tunnox:"))
		}
		if op == "Set" && strings.HasPrefix(key, constants.KeyPrefixPortMapping+":") {
			id := strings.TrimPrefix(key, constants.KeyPrefixPortMapping+":")
			if _, seen := r.appeared[id]; !seen {
				r.appeared[id] = w.Now()
			}
		}
		if r.rd != nil {
			r.rd.Sync()
		}
	}
	n.st = st
	repo := repos.NewRepository(st)
	ccRepo := repos.NewConnectionCodeRepository(repo)
	mRepo := repos.NewPortMappingRepo(repo)
	idm := idgen.NewIDManager(st, r.ctx)
	var counter *stats.StatsCounter
	if r.stats {
		if sp, err := services.NewSimpleStatsProvider(st, r.ctx); err == nil && sp != nil {
			counter = sp.GetCounter()
		}
	}
	pms := services.NewPortMappingService(mRepo, idm, counter, r.ctx)
	n.svc = services.NewConnectionCodeService(ccRepo, pms, mRepo, &services.ConnectionCodeServiceConfig{
		MaxActiveCodesPerClient:    10,
		MaxActiveMappingsPerClient: r.quota,
	}, r.ctx)
	return n
}

// ---- raw view of the store (oracle side, no faults) -----------------------

func (r *c06run) keys(prefix string) []string {
	var out []string
	if r.rd != nil {
		r.rd.Sync()
		for _, k := range r.rd.Mini.Keys() {
			if strings.HasPrefix(k, prefix) {
				out = append(out, k)
			}
		}
	} else {
		m, _ := r.mem.QueryByPrefix(prefix, 0)
		for k := range m {
			out = append(out, k)
		}
	}
	sort.Strings(out)
	return out
}

func (r *c06run) getString(key string) (string, bool) {
	if r.rd != nil {
		r.rd.Sync()
	}
	v, err := r.stor.Get(key)
	if err != nil {
		return "", false
	}
	s, ok := v.(string)
	return s, ok
}

func (r *c06run) listStrings(key string) []string {
	if r.rd != nil {
		r.rd.Sync()
	}
	ls, ok := r.stor.(types.ListStore)
	if !ok {
		return nil
	}
	l, err := ls.GetList(key)
	if err != nil {
		return nil
	}
	var out []string
	for _, v := range l {
		if s, ok := v.(string); ok {
			out = append(out, s)
		}
	}
	return out
}

// primary port-mapping records, by id (sorted ids returned separately)
func (r *c06run) mappingRecords() (map[string]*models.PortMapping, []string) {
	recs := map[string]*models.PortMapping{}
	var ids []string
	for _, k := range r.keys(constants.KeyPrefixPortMapping + ":") {
		s, ok := r.getString(k)
		if !ok {
			continue
		}
		var m models.PortMapping
		if json.Unmarshal([]byte(s), &m) != nil {
			continue
		}
		id := strings.TrimPrefix(k, constants.KeyPrefixPortMapping+":")
		recs[id] = &m
		ids = append(ids, id)
	}
	sort.Strings(ids)
	return recs, ids
}

func (r *c06run) mappingIDsOfCode(c *c06code) map[string]bool {
	recs, ids := r.mappingRecords()
	out := map[string]bool{}
	for _, id := range ids {
		if recs[id].TargetAddress == c.addr {
			out[id] = true
		}
	}
	return out
}

type c06entry struct {
	list string
	m    models.PortMapping
}

// every index entry (global list and per-client lists of all clients in play)
func (r *c06run) indexEntries() []c06entry {
	var out []c06entry
	lists := []string{constants.KeyPrefixMappingList}
	lists = append(lists, r.keys(constants.KeyPrefixClientMappings+":")...)
	for _, lk := range lists {
		for _, s := range r.listStrings(lk) {
			var m models.PortMapping
			if json.Unmarshal([]byte(s), &m) == nil {
				out = append(out, c06entry{list: strings.TrimPrefix(lk, "tunnox:"), m: m})
			}
		}
	}
	return out
}

// ---- calls ---------------------------------------------------------------

func (r *c06run) run(c *c06call) {
	w := r.w
	n := r.nodes[c.node]
	defer func() {
		if p := recover(); p != nil {
			// a crashed (fenced) node unwinds every task that touches its store; the
			// sentinel may arrive wrapped (singleflight re-panics with its own type)
			if n.st.Fenced() {
				c.crashed = true
				r.logf("%s on %s: CRASHED", c.name, n.name)
				return
			}
			panic(p)
		}
	}()
	if c.delay > 0 {
		w.Sleep(c.delay)
	}
	w.Yield("c06.invoke")
	code := r.codes[c.code]
	_, c.wBefore = n.st.Ops()
	c.oBefore = n.opCnt
	c.tInv = w.Now()
	c.inv = w.Stamp()
	c.started = true
	r.logf("%s invoke %s(code%d) client=%d on %s addr=%s", c.name, c.kind, c.code, c.client, n.name, c.addr)
	switch c.kind {
	case "activate":
		m, err := n.svc.ActivateConnectionCode(&services.ActivateConnectionCodeRequest{
			Code: code.code, ListenClientID: c.client, ListenAddress: c.addr,
		})
		c.ret = w.Stamp()
		c.tRet = w.Now()
		c.m, c.err = m, err
		if err == nil && m == nil {
			c.err = fmt.Errorf("nil mapping without error")
		}
	case "revoke":
		err := n.svc.RevokeConnectionCode(code.code, fmt.Sprintf("client-%d", c.client))
		c.ret = w.Stamp()
		c.tRet = w.Now()
		c.err = err
	case "lookup":
		// a read-only query of the code through this node (detail view); it must not change what later calls may do
		_, err := n.svc.GetConnectionCode(code.code)
		c.ret = w.Stamp()
		c.tRet = w.Now()
		c.err = err
	}
	_, c.wAfter = n.st.Ops()
	c.oAfter = n.opCnt
	c.finished = true
	r.logf("%s return %s", c.name, c.outcome())
	if c.kind == "revoke" && c.err == nil {
		// what an observer sees once the revocation has been acknowledged
		c.snap = r.mappingIDsOfCode(code)
	}
}

func c06overlap(a, b *c06call) bool {
	return a.started && b.started && a.finished && b.finished && a.inv < b.ret && b.inv < a.ret
}

// fault class of a failed call, for signatures
func (r *c06run) failClass(f *c06call) string {
	if f.node == r.fNode {
		n := r.nodes[f.node]
		switch r.fault {
		case "error":
			if f.wBefore < n.st.FailAt && n.st.FailAt <= f.wAfter {
				return "write-error@" + c06faultSite(f.err)
			}
		case "stall":
			if f.oBefore < n.stallAt && n.stallAt <= f.oAfter {
				return "stalled"
			}
		}
	}
	for _, o := range r.calls {
		if o != f && o.kind != "lookup" && o.code == f.code && c06overlap(o, f) {
			return "overlapped"
		}
	}
	return "isolated"
}

// c06faultSite names the kind of record whose write was failed, taken from the
// injected error's own text ("... (Op key #n)"); "unreported" when the call
// swallowed the storage error.
func c06faultSite(err error) string {
	if err == nil {
		return "swallowed"
	}
	e := err.Error()
	i := strings.Index(e, "injected storage failure (")
	if i < 0 {
		return "unreported"
	}
	e = e[i:]
	for _, kv := range [][2]string{
		{constants.KeyPrefixPortMapping + ":", "mapping-record"},
		{constants.KeyPrefixMappingList, "mapping-list"},
		{constants.KeyPrefixClientMappings, "client-index"},
		{constants.KeyPrefixRuntimeConnectionCodeByCode, "code-record-by-code"},
		{constants.KeyPrefixRuntimeConnectionCodeByID, "code-record-by-id"},
		{"tunnox:id:used:", "id-claim"},
		{"tunnox:stats", "stats"},
	} {
		if strings.Contains(e, " "+kv[0]) {
			return kv[1]
		}
	}
	return "other"
}

// c06rand replaces crypto/rand.Reader for the duration of a run: the repo's
// code and id generators draw from a stream seeded by the choice stream, so a
// run (including which characters concurrent generators draw) replays exactly.
// The stream is uniform, so independently generated codes collide as rarely as
// with the real source.
type c06rand struct {
	mu sync.Mutex
	s  uint64
}

func (r *c06rand) Read(p []byte) (int, error) {
	r.mu.Lock()
	defer r.mu.Unlock()
	for i := range p {
		r.s += 0x9e3779b97f4a7c15
		z := r.s
		z = (z ^ (z >> 30)) * 0xbf58476d1ce4e5b9
		z = (z ^ (z >> 27)) * 0x94d049bb133111eb
		p[i] = byte((z ^ (z >> 31)) >> 24)
	}
	return len(p), nil
}

func init() {
	Register(&Scenario{
		ID:    "C06",
		Level: "exploration",
		Rule: "each run draws a backend (real memory | real redis on miniredis), 1-3 nodes (own service stack each, one shared store), optional stats counter, a per-client mapping quota in {50,1,0}, 1-2 codes generated one after the other, or 2 codes by concurrent requests, or a burst of 3-4 concurrent generate requests through one node (the repo's crypto/rand source is a uniform stream seeded from the choice stream, so generated codes replay) " +
			"(activation TTL 90s or 10min, own unique target address) created fault-free through a drawn node, then 2-4 activation calls (client from a pool of three - so the same client often calls twice - or the code's own target client, drawn node, unique listen address, 1/8 malformed, start delay in {0,0.4s,1.7s,7s,31s,95s,11min}: simultaneous, a few hundred ms / seconds apart, and beyond the TTLs), " +
			"0-1 revoke call and 0-2 read-only lookups of a code through a drawn node, all as concurrent tasks interleaved at statement/storage-operation granularity; one fault mode per run: none | the k-th storage write of one node fails (k in 1..16) | that node crashes (is fenced) at its k-th write and a fresh node retries every code afterwards | the k-th storage operation of one node stalls 47s/101s/11min (lets expiry or later calls land inside an activation). " +
			"The fault position is sampled, not piloted. Oracle clauses beyond call results: codes handed out are pairwise distinct and each stays bound to its requester's target; no mapping of a code is first written to the store after a revoke was acknowledged or after the code's deadline (write instants observed at the storage boundary) and remains. Non-trivial: two generate requests overlapped on one node, or two state-changing calls (activate/revoke) on one code overlapped (invoke/return stamps interleave), or a fault fired inside a call, or an activation was attempted on a code that was already used, revoked or expired. Distinct = distinct schedule hashes among those.",
		Real:        []string{"internal/cloud/services/conncode Service (Create/Activate/Revoke)", "internal/cloud/repos ConnectionCodeRepository, PortMappingRepo, GenericRepository", "internal/cloud/services portMappingService + conncode facade adapter", "internal/core/idgen IDManager (SetNX id claims)", "internal/cloud/stats StatsCounter (1/3 of runs)", "internal/core/storage/memory or internal/core/storage/redis over go-redis + miniredis"},
		Stub:        []string{"command handlers / sessions: harness tasks call the service methods with the authenticated client id, as the handlers do", "redis server: miniredis in the bubble over net.Pipe, TTL clock driven from the simulated clock", "storage latency/failure/crash: simstore handle per node"},
		Assumptions: []string{"a mapping is attributed to a code by the code's target address (unique per code in the workload) and to a call by its listen address (unique per call)", "instants exactly on an expiry boundary are never generated (delays and stalls cannot sum to a TTL)", "a revoke and an activation that overlap may both succeed only if the mapping was already in the store when the revoke was acknowledged (the text does not define revoke-after-use)", "lost writes (acknowledged but not applied) and the tiered/hybrid backend are not generated", "after a crash only the count of mappings per code after a retry on a fresh node is judged"},
		Opt:         func(tier string) simrt.Options { return simrt.Options{MaxSteps: 600000} },
		Run:         c06Run,
	})
}

var c06delays = []time.Duration{0, 0, 0, 0, 400 * time.Millisecond, 1700 * time.Millisecond, 7 * time.Second, 31 * time.Second, 95 * time.Second, 11*time.Minute + 3*time.Second}
var c06stalls = []time.Duration{47 * time.Second, 101 * time.Second, 11 * time.Minute}

func c06Run(w *simrt.World, tier string) {
	c := w.C
	ctx, cancel := context.WithCancel(w.Ctx)
	defer cancel()
	r := &c06run{w: w, ctx: ctx, appeared: map[string]time.Duration{}}
	w.SetCrashSentinel(simstore.Crash)
	oldRand := crand.Reader
	crand.Reader = &c06rand{s: uint64(c.Intn(1<<30, "rand.seed"))*0x2545f4914f6cdd1d + 1}
	defer func() { crand.Reader = oldRand }()

	// ---- swarm configuration (all draws before any task is spawned)
	useRedis := c.Intn(3, "backend") == 2
	nNodes := 1 + c.Intn(3, "nodes")
	r.stats = c.Intn(3, "stats") == 2
	r.quota = []int{50, 50, 50, 50, 50, 1, 1, 0}[c.Intn(8, "quota")]
	nCodes := 1
	if c.Intn(4, "ncodes") == 3 {
		nCodes = 2
	}
	// how the codes are generated: one after the other, or by concurrent requests
	// (several target clients asking at the same moment), or a burst of 3-4
	// concurrent requests through one node
	r.genMode = []string{"sequential", "sequential", "concurrent", "burst"}[c.Intn(4, "gen.mode")]
	if r.genMode == "concurrent" && nCodes == 1 {
		nCodes = 2
	}
	if r.genMode == "burst" {
		nCodes = 3 + c.Intn(2, "gen.burst")
	}
	for i := 0; i < nCodes; i++ {
		cd := &c06code{idx: i, target: 1001, host: fmt.Sprintf("10.9.%d.1", i+1), port: 3306 + i, proto: "tcp"}
		if c.Intn(3, "code.target") == 2 {
			cd.target = 1002 + int64(i%2)
		}
		if c.Intn(4, "code.proto") == 3 {
			cd.proto = "udp"
		}
		cd.addr = fmt.Sprintf("%s://%s:%d", cd.proto, cd.host, cd.port)
		cd.ttl = []time.Duration{10 * time.Minute, 90 * time.Second}[c.Intn(2, "code.ttl")]
		cd.mapDur = []time.Duration{0, time.Hour}[c.Intn(2, "code.mapdur")]
		r.codes = append(r.codes, cd)
	}
	nAct := 2 + c.Intn(3, "nactivators")
	for i := 0; i < nAct; i++ {
		cl := &c06call{name: fmt.Sprintf("A%d", i+1), kind: "activate", valid: true}
		cl.code = c.Intn(nCodes, "act.code")
		cl.client = int64(2001 + c.Intn(3, "act.client"))
		if c.Intn(8, "act.self") == 7 {
			cl.client = r.codes[cl.code].target
		}
		cl.node = c.Intn(nNodes, "act.node")
		cl.port = 7001 + i
		cl.addr = fmt.Sprintf("0.0.0.0:%d", cl.port)
		switch c.Intn(16, "act.addr") {
		case 14:
			cl.addr, cl.valid = fmt.Sprintf("0.0.0.0:%d", 70001+i), false // port out of range
		case 15:
			cl.addr, cl.valid = fmt.Sprintf("listen-%d", i), false // no port
		}
		cl.delay = c06delays[c.Intn(len(c06delays), "act.delay")]
		r.calls = append(r.calls, cl)
	}
	if c.Intn(3, "revoker") == 2 {
		cl := &c06call{name: "R1", kind: "revoke", valid: true}
		cl.code = c.Intn(nCodes, "rev.code")
		cl.client = r.codes[cl.code].target
		cl.node = c.Intn(nNodes, "rev.node")
		cl.delay = []time.Duration{0, 0, 7 * time.Second, 31 * time.Second, 200 * time.Millisecond, 1100 * time.Millisecond}[c.Intn(6, "rev.delay")]
		r.calls = append(r.calls, cl)
	}
	// read-only lookups of a code through some node (0-2), at any time
	nLook := []int{0, 0, 1, 2}[c.Intn(4, "nlookups")]
	for i := 0; i < nLook; i++ {
		cl := &c06call{name: fmt.Sprintf("L%d", i+1), kind: "lookup", valid: true}
		cl.code = c.Intn(nCodes, "look.code")
		cl.client = r.codes[cl.code].target
		cl.node = c.Intn(nNodes, "look.node")
		cl.delay = []time.Duration{0, 0, 300 * time.Millisecond, 1500 * time.Millisecond, 6 * time.Second, 30 * time.Second}[c.Intn(6, "look.delay")]
		r.calls = append(r.calls, cl)
	}
	burstNode := c.Intn(nNodes, "gen.burst.node")
	for _, cd := range r.codes {
		cd.node = c.Intn(nNodes, "code.node")
		if r.genMode == "burst" {
			cd.node = burstNode
		}
	}
	r.fault = []string{"none", "none", "none", "error", "error", "crash", "crash", "stall"}[c.Intn(8, "fault")]
	r.fNode = c.Intn(nNodes, "fault.node")
	r.fK = 1 + c.Intn(16, "fault.k")
	if r.fault == "stall" {
		r.fK = 1 + c.Intn(24, "fault.stall.k")
		r.fDur = c06stalls[c.Intn(len(c06stalls), "fault.stall.d")]
	}

	// ---- world
	if useRedis {
		r.rd = simstore.NewRedis(w)
		defer r.rd.Close()
		r.stor = r.rd.Storage
		w.Probe("backend.redis")
	} else {
		mem := simstore.NewMemory(w)
		defer mem.Close()
		r.stor, r.mem = mem, mem
		w.Probe("backend.memory")
	}
	for i := 0; i < nNodes; i++ {
		r.nodes = append(r.nodes, r.newNode(fmt.Sprintf("n%d", i+1)))
	}

	// ---- codes are generated fault-free through a drawn node, as the generate handler does
	generate := func(cd *c06code) {
		t0 := w.Now()
		cd.genInv = w.Stamp()
		r.logf("G%d invoke generate(code%d) target=%d on %s", cd.idx, cd.idx, cd.target, r.nodes[cd.node].name)
		cc, err := r.nodes[cd.node].svc.CreateConnectionCode(&services.CreateConnectionCodeRequest{
			TargetClientID: cd.target, TargetAddress: cd.addr, ActivationTTL: cd.ttl, MappingDuration: cd.mapDur,
			Description: fmt.Sprintf("code%d", cd.idx), CreatedBy: fmt.Sprintf("client-%d", cd.target),
		})
		cd.genRet = w.Stamp()
		if err != nil || cc == nil {
			cd.genErr = fmt.Errorf("%v", err)
			r.logf("G%d return error %v", cd.idx, err)
			return
		}
		cd.code, cd.id, cd.created = cc.Code, cc.ID, true
		cd.expLo, cd.expHi = t0+cd.ttl, w.Now()+cd.ttl
		r.logf("G%d return code%d=%s target=%d %s ttl=%v", cd.idx, cd.idx, cd.code, cd.target, cd.addr, cd.ttl)
	}
	if r.genMode == "sequential" {
		for _, cd := range r.codes {
			generate(cd)
		}
	} else {
		var gts []*simrt.Task
		for _, cd := range r.codes {
			cd := cd
			gts = append(gts, w.Spawn(fmt.Sprintf("gen-%d", cd.idx), func() {
				w.Yield("c06.generate")
				generate(cd)
			}))
		}
		for _, t := range gts {
			t.Wait()
		}
	}
	w.Probe("generate." + r.genMode)
	for _, cd := range r.codes {
		if !cd.created {
			w.Violation("C06:create-failed:"+r.genMode, r.detail(fmt.Sprintf("CreateConnectionCode for code%d on a fault-free store failed: %v", cd.idx, cd.genErr)))
			return
		}
	}
	// every request got its own code, and the code is bound to what its requester fixed
	genBroken := false
	for i, a := range r.codes {
		for _, b := range r.codes[i+1:] {
			if a.code != b.code {
				continue
			}
			genBroken = true
			how, where := "sequential-requests", "other-node"
			if a.genInv < b.genRet && b.genInv < a.genRet {
				how = "concurrent-requests"
				w.Nontrivial()
			}
			if a.node == b.node {
				where = "same-node"
			}
			w.Violation("C06:same-code-given-twice:"+how+":"+where, r.detail(fmt.Sprintf("code%d (target %d, %s) and code%d (target %d, %s) are the same string %q", a.idx, a.target, a.addr, b.idx, b.target, b.addr, a.code)))
		}
	}
	for _, cd := range r.codes {
		raw, ok := r.getString(constants.KeyPrefixRuntimeConnectionCodeByCode + cd.code)
		var rec models.TunnelConnectionCode
		if !ok || json.Unmarshal([]byte(raw), &rec) != nil {
			genBroken = true
			w.Violation("C06:generated-code-not-stored", r.detail(fmt.Sprintf("code%d %q was handed out but no record is stored under it", cd.idx, cd.code)))
			continue
		}
		if rec.TargetClientID != cd.target || rec.TargetAddress != cd.addr {
			genBroken = true
			w.Violation("C06:generated-code-bound-to-other-target", r.detail(fmt.Sprintf("code%d %q was generated for client %d / %s but its record names client %d / %s", cd.idx, cd.code, cd.target, cd.addr, rec.TargetClientID, rec.TargetAddress)))
		}
	}
	if r.genMode != "sequential" {
		for i, a := range r.codes {
			for _, b := range r.codes[i+1:] {
				if a.node == b.node && a.genInv < b.genRet && b.genInv < a.genRet {
					w.Probe("generate.overlap.same-node")
					w.Nontrivial()
				}
			}
		}
	}
	if genBroken {
		return // the per-code attribution below assumes distinct, correctly bound codes
	}

	// ---- arm the fault
	fn := r.nodes[r.fNode]
	switch r.fault {
	case "error":
		_, wr := fn.st.Ops()
		fn.st.CountWritesOnly = true
		fn.st.FailAt = wr + r.fK
	case "crash":
		_, wr := fn.st.Ops()
		fn.st.CountWritesOnly = true
		fn.st.CrashAt = wr + r.fK
	case "stall":
		fn.stallFor = r.fDur
		fn.stallAt = fn.opCnt + r.fK
	}

	// ---- concurrent calls
	var tasks []*simrt.Task
	for _, cl := range r.calls {
		cl := cl
		tasks = append(tasks, w.Spawn("call-"+cl.name, func() { r.run(cl) }))
	}
	for _, t := range tasks {
		t.Wait()
	}

	// ---- after a crash a fresh node retries every code
	crashFired := fn.st.Fenced()
	if crashFired {
		r.nodes = append(r.nodes, r.newNode("fresh"))
		for _, cd := range r.codes {
			cl := &c06call{name: fmt.Sprintf("Retry%d", cd.idx), kind: "activate", code: cd.idx, client: 2009, node: len(r.nodes) - 1,
				port: 7100 + cd.idx, valid: true, retry: true}
			cl.addr = fmt.Sprintf("0.0.0.0:%d", cl.port)
			r.calls = append(r.calls, cl)
			r.run(cl)
		}
	}

	r.judge(crashFired)
}

// ---- oracle ----------------------------------------------------------------

func (r *c06run) history() string {
	var sb strings.Builder
	fmt.Fprintf(&sb, "backend=%s nodes=%d quota=%d stats=%v generation=%s fault=%s", map[bool]string{false: "memory", true: "redis"}[r.rd != nil], len(r.nodes), r.quota, r.stats, r.genMode, r.fault)
	if r.fault != "none" {
		fmt.Fprintf(&sb, "(node n%d, k=%d", r.fNode+1, r.fK)
		if r.fault == "stall" {
			fmt.Fprintf(&sb, ", %v", r.fDur)
		}
		sb.WriteString(")")
	}
	sb.WriteString("\n")
	for _, cd := range r.codes {
		fmt.Fprintf(&sb, "code%d: target=%d %s ttl=%v expires@%v\n", cd.idx, cd.target, cd.addr, cd.ttl, cd.expHi)
	}
	for _, cl := range r.calls {
		fmt.Fprintf(&sb, "%s %s(code%d) client=%d node=%s addr=%s delay=%v stamps=[%d,%d] t=[%v,%v] -> %s", cl.name, cl.kind, cl.code, cl.client, r.nodes[cl.node].name, cl.addr, cl.delay, cl.inv, cl.ret, cl.tInv, cl.tRet, cl.outcome())
		if cl.err != nil {
			e := cl.err.Error()
			if len(e) > 160 {
				e = e[:160] + "..."
			}
			sb.WriteString(" : " + e)
		}
		sb.WriteString("\n")
	}
	return sb.String()
}

func (r *c06run) detail(head string) string {
	return head + "\n" + r.history() + "storage-operation history (tail):\n" + strings.Join(tailStr(r.oplog, 90), "\n")
}

func (r *c06run) judge(crashFired bool) {
	w := r.w
	recs, ids := r.mappingRecords()
	entries := r.indexEntries()
	now := w.Now()

	byAddr := map[string]*c06call{}
	for _, cl := range r.calls {
		if cl.kind == "activate" {
			byAddr[cl.addr] = cl
		}
	}

	// ---- evidence: non-triviality, probes, abstract state
	nontrivial := false
	for i, a := range r.calls {
		for _, b := range r.calls[i+1:] {
			if a.code == b.code && c06overlap(a, b) {
				if a.kind != "lookup" && b.kind != "lookup" {
					nontrivial = true
				}
				w.Probe("overlap." + a.kind + "-" + b.kind)
			}
		}
	}
	for _, cl := range r.calls {
		if !cl.finished {
			if cl.crashed {
				w.Probe("call.crashed")
				nontrivial = true
			}
			continue
		}
		fc := r.failClass(cl)
		if strings.HasPrefix(fc, "write-error") || fc == "stalled" {
			nontrivial = true
			w.Probe("fault-inside-call." + fc)
		}
		if cl.err != nil {
			w.Probe(cl.kind + ".err." + string(coreerrors.GetCode(cl.err)))
		} else {
			w.Probe(cl.kind + ".ok")
		}
		if cl.kind != "activate" {
			continue
		}
		cd := r.codes[cl.code]
		if cl.tInv > cd.expHi {
			nontrivial = true
			w.Probe("activate.after-expiry")
		}
		for _, o := range r.calls {
			if o != cl && o.kind != "lookup" && o.code == cl.code && o.ok() && o.ret < cl.inv {
				nontrivial = true
				w.Probe("activate.after-" + o.kind + "-ok")
			}
		}
	}
	if nontrivial {
		w.Nontrivial()
	}

	var st []string
	for _, cd := range r.codes {
		nOK, nFail, nCrash, rev := 0, 0, 0, "-"
		for _, cl := range r.calls {
			if cl.code != cd.idx {
				continue
			}
			switch {
			case cl.kind == "revoke" && cl.ok():
				rev = "ok"
			case cl.kind == "revoke":
				rev = "rej"
			case cl.crashed:
				nCrash++
			case cl.ok():
				nOK++
			default:
				nFail++
			}
		}
		nM := 0
		for _, id := range ids {
			if recs[id].TargetAddress == cd.addr {
				nM++
			}
		}
		st = append(st, fmt.Sprintf("ok%d/fail%d/crash%d/rev:%s/maps%d", nOK, nFail, nCrash, rev, nM))
	}
	w.State(r.fault + "|" + strings.Join(st, "|"))
	w.Sample(strings.ReplaceAll(r.history(), "\n", " ; "))

	// ---- the property, code by code
	for _, cd := range r.codes {
		var acts, succ, failed []*c06call
		for _, cl := range r.calls {
			if cl.code != cd.idx || cl.kind != "activate" || !cl.finished {
				continue
			}
			acts = append(acts, cl)
			if cl.err == nil {
				succ = append(succ, cl)
			} else {
				failed = append(failed, cl)
			}
		}
		var mine []string // ids of records that originate from this code
		for _, id := range ids {
			if recs[id].TargetAddress == cd.addr {
				mine = append(mine, id)
			}
		}

		// (1) at most one successful activation
		//     two classes of failing history, kept apart so that one cannot hide the other:
		//     the activations overlapped (a race), or the later one was invoked after the
		//     earlier one had already returned success (a used code was accepted again)
		flaggedDouble := false
		if len(succ) >= 2 {
			flaggedDouble = true
			var ov, sq [2]*c06call
			for i, a := range succ {
				for _, b := range succ[i+1:] {
					switch {
					case c06overlap(a, b):
						if ov[0] == nil {
							ov = [2]*c06call{a, b}
						}
					case sq[0] != nil:
					case a.ret < b.inv:
						sq = [2]*c06call{a, b}
					default:
						sq = [2]*c06call{b, a}
					}
				}
			}
			if ov[0] != nil {
				w.Violation("C06:double-activation:overlapping", r.detail(fmt.Sprintf("code%d was activated successfully %d times (%s and %s overlapped); %d mapping records originate from it", cd.idx, len(succ), ov[0].name, ov[1].name, len(mine))))
			}
			if sq[0] != nil {
				who, where := "other-client", "other-node"
				if sq[0].client == sq[1].client {
					who = "same-client"
				}
				if sq[0].node == sq[1].node {
					where = "same-node"
				}
				w.Violation("C06:used-code-activated-again:"+who+":"+where, r.detail(fmt.Sprintf("code%d: %s returned success (stamp %d, %v) and %s, invoked afterwards (stamp %d, %v), succeeded too; %d mapping records originate from the code", cd.idx, sq[0].name, sq[0].ret, sq[0].tRet, sq[1].name, sq[1].inv, sq[1].tInv, len(mine))))
			}
		}

		// (2) the mapping of a successful activation: exists, right target, listens for the activator
		for _, s := range succ {
			if f := c06wrongField(s.m, cd, s); f != "" {
				w.Violation("C06:wrong-mapping:returned:"+f, r.detail(fmt.Sprintf("%s: returned mapping %+v does not match code%d / the activator", s.name, *s.m, cd.idx)))
			}
			rec := recs[s.m.ID]
			if rec == nil {
				w.Violation("C06:success-but-no-mapping:"+r.failClass(s), r.detail(fmt.Sprintf("%s returned mapping %s but no such record is in the store at the end", s.name, s.m.ID)))
				continue
			}
			if f := c06wrongField(rec, cd, s); f != "" {
				w.Violation("C06:wrong-mapping:stored:"+f, r.detail(fmt.Sprintf("%s: stored mapping %+v does not match code%d / the activator", s.name, *rec, cd.idx)))
			}
			// only while valid: not after expiry
			if s.tInv > cd.expHi {
				w.Violation("C06:expired-code-activated", r.detail(fmt.Sprintf("%s was invoked at %v, after code%d expired (%v), and succeeded", s.name, s.tInv, cd.idx, cd.expHi)))
			}
		}

		// (3) a failed activation leaves nothing behind
		flaggedLeft := false
		for _, f := range failed {
			class := r.failClass(f)
			left := false
			for _, id := range mine {
				if recs[id].ListenAddress == f.addr {
					left = true
					flaggedLeft = true
					w.Violation("C06:failed-activation-leaves-mapping:"+class, r.detail(fmt.Sprintf("%s failed (%v) but mapping record %s (listen %s, client %d) is still in the store", f.name, f.err, id, f.addr, recs[id].ListenClientID)))
				}
			}
			if left {
				continue
			}
			for _, e := range entries {
				if e.m.ListenAddress == f.addr && e.m.TargetAddress == cd.addr {
					w.Violation("C06:failed-activation-leaves-index-entry:"+class, r.detail(fmt.Sprintf("%s failed (%v) but index %s still names mapping %s", f.name, f.err, e.list, e.m.ID)))
					break
				}
			}
		}

		// (4) never more than one mapping per code, whatever happened
		if len(mine) > 1 && !flaggedDouble && !flaggedLeft {
			class := "fault-" + r.fault
			if crashFired {
				class = "crash-then-retry"
			}
			w.Violation("C06:two-mappings-for-one-code:"+class, r.detail(fmt.Sprintf("%d mapping records originate from code%d: %v", len(mine), cd.idx, mine)))
		}
		for _, id := range mine {
			if byAddr[recs[id].ListenAddress] == nil {
				w.Violation("C06:unattributed-mapping", r.detail(fmt.Sprintf("mapping %s of code%d listens on %q which no call asked for", id, cd.idx, recs[id].ListenAddress)))
			}
		}

		// (5) a revoked code never creates a mapping: nothing new after the acknowledgement
		for _, rv := range r.calls {
			if rv.kind != "revoke" || rv.code != cd.idx || !rv.ok() || rv.snap == nil {
				continue
			}
			for _, id := range mine {
				if rv.snap[id] {
					continue
				}
				owner := byAddr[recs[id].ListenAddress]
				if owner != nil && owner.finished && owner.err != nil {
					continue // reported under (3)
				}
				on, sig := "?", "C06:revoked-code-created-mapping:overlapping"
				if owner != nil {
					on = owner.name + "=" + owner.outcome()
					if owner.started && owner.inv > rv.ret {
						// not a race: the activation began after the revocation had been acknowledged
						sig = "C06:revoked-code-activated-later:other-node"
						if owner.node == rv.node {
							sig = "C06:revoked-code-activated-later:same-node"
						}
					}
				}
				w.Violation(sig, r.detail(fmt.Sprintf("revocation of code%d was acknowledged (stamp %d, no mapping %s in the store then) and mapping %s appeared afterwards (%s)", cd.idx, rv.ret, id, id, on)))
			}
		}

		// (5b) an expired code never creates a mapping: no record of this code may have been
		//      written to the store after the code's deadline and still be there
		for _, id := range mine {
			at, seen := r.appeared[id]
			if !seen || at <= cd.expHi {
				continue
			}
			owner := byAddr[recs[id].ListenAddress]
			if owner != nil && owner.finished && owner.err != nil {
				continue // reported under (3)
			}
			on, class := "?", "accepted-before-deadline"
			if owner != nil {
				on = owner.name + "=" + owner.outcome()
				if owner.tInv > cd.expHi {
					class = "invoked-after-deadline"
				}
			}
			w.Violation("C06:mapping-written-after-code-expired:"+class, r.detail(fmt.Sprintf("code%d expired at %v; mapping %s was written to the store at %v and is still there (%s)", cd.idx, cd.expHi, id, at, on)))
		}

		// (6) after a success the code must be spent
		if len(succ) >= 1 {
			if s, ok := r.getString(constants.KeyPrefixRuntimeConnectionCodeByCode + cd.code); ok {
				var rec models.TunnelConnectionCode
				if json.Unmarshal([]byte(s), &rec) == nil {
					expired := time.Duration(rec.ActivationExpiresAt.Sub(time.Now())) < 0
					if !rec.IsActivated && !rec.IsRevoked && !expired {
						w.Violation("C06:code-still-activatable-after-success", r.detail(fmt.Sprintf("code%d produced a mapping for %s but its record at %v is neither activated nor revoked nor expired", cd.idx, succ[0].name, now)))
					}
					if rec.IsRevoked && !rec.IsActivated {
						w.Probe("record.revoked-unactivated-yet-has-mapping")
					}
				}
			}
		}

		// (7) whoever activates a valid code first gets the mapping
		if r.fault == "none" && r.quota >= 50 {
			for _, a := range acts {
				if a.err == nil || !a.valid || a.tRet >= cd.expLo {
					continue
				}
				clean := true
				for _, o := range r.calls {
					if o == a || o.code != cd.idx || o.kind == "lookup" {
						continue
					}
					if c06overlap(o, a) || !o.finished || (o.ok() && o.ret < a.inv) {
						clean = false
					}
				}
				if clean {
					w.Violation("C06:first-activator-rejected", r.detail(fmt.Sprintf("%s activated the still valid, unused code%d alone (no overlapping call, no fault) and was rejected: %v", a.name, cd.idx, a.err)))
				}
			}
		}
	}
}

// c06wrongField names the first field of m that contradicts the code or the activator.
func c06wrongField(m *models.PortMapping, cd *c06code, s *c06call) string {
	switch {
	case m == nil || m.ID == "":
		return "id"
	case m.TargetClientID != cd.target:
		return "target-client"
	case m.TargetAddress != cd.addr || m.TargetHost != cd.host || m.TargetPort != cd.port || string(m.Protocol) != cd.proto:
		return "target-address"
	case m.ListenClientID != s.client:
		return "listen-client"
	case m.ListenAddress != s.addr || m.SourcePort != s.port:
		return "listen-address"
	}
	return ""
}
