package sim

import (
	"bufio"
	"encoding/json"
	"fmt"
	"os"
	"runtime/debug"
	"runtime/metrics"
	"sort"
	"strconv"
	"strings"
	"testing"
	"time"

	"tunnox-core/verifsim/props"
	"tunnox-core/verifsim/simrt"
)

// Replay is the on-disk replay file.
type Replay struct {
	Property  string       `json:"property"`
	Tier      string       `json:"tier"`
	Seed      int64        `json:"seed"`
	Run       int64        `json:"run"`
	Sig       string       `json:"sig"`
	Detail    string       `json:"detail"`
	Choices   []int        `json:"choices"`
	Labels    []simrt.Draw `json:"trace,omitempty"`
	SchedHash uint64       `json:"sched_hash"`
	Steps     int          `json:"steps"`
	Minimised bool         `json:"minimised"`
	OrigDraws int          `json:"orig_draws"`
	Execs     int          `json:"minimise_execs"`
	Sample    string       `json:"sample,omitempty"`
}

type msg struct {
	Type   string `json:"type"`
	Worker int    `json:"worker"`
	// violation
	Sig    string `json:"sig,omitempty"`
	Detail string `json:"detail,omitempty"`
	Replay string `json:"replay,omitempty"`
	Run    int64  `json:"run,omitempty"`
	// summary
	Runs        int            `json:"runs,omitempty"`
	PureRuns    int            `json:"pure_runs,omitempty"`
	Nontrivial  int            `json:"nontrivial,omitempty"`
	Hashes      []string       `json:"hashes,omitempty"`
	Probes      map[string]int `json:"probes,omitempty"`
	Faults      map[string]int `json:"faults,omitempty"`
	States      []string       `json:"states,omitempty"`
	SigCounts   map[string]int `json:"sig_counts,omitempty"`
	Steps       int64          `json:"steps,omitempty"`
	SimNS       int64          `json:"sim_ns,omitempty"`
	SimS        float64        `json:"sim_s,omitempty"` // simulated seconds (float: month-long runs overflow a nanosecond sum)
	Stuck       int            `json:"stuck,omitempty"`
	StepCap     int            `json:"step_cap,omitempty"`
	Leaky       int            `json:"leaky_runs,omitempty"`
	Samples     []string       `json:"samples,omitempty"`
	WallS       float64        `json:"wall_s,omitempty"`
	FaultFree   int            `json:"fault_free_runs,omitempty"`
	// replay
	Sigs      []string `json:"sigs,omitempty"`
	SchedHash uint64   `json:"sched_hash,omitempty"`
}

func envInt(k string, def int64) int64 {
	if v := os.Getenv(k); v != "" {
		if n, err := strconv.ParseInt(v, 10, 64); err == nil {
			return n
		}
	}
	return def
}

func runOnce(t *testing.T, sc *props.Scenario, c *simrt.Choice, tier string, trace bool) *simrt.Result {
	opt := simrt.Options{}
	if sc.Opt != nil {
		opt = sc.Opt(tier)
	}
	if trace {
		opt.Trace = os.Stderr
	}
	if sc.Pure != nil && sc.PureShare > 0 {
		if c.Intn(100, "mode.pure") >= 100-sc.PureShare {
			res := &simrt.Result{Probes: map[string]int{}, Faults: map[string]int{}, States: map[string]int{}}
			sc.Pure(c, res, tier)
			res.Probes["mode.pure_input_enumeration"]++
			res.Draws = len(c.Rec)
			return res
		}
	}
	return simrt.Run(t, c, opt, func(w *simrt.World) { sc.Run(w, tier) })
}

func hasSig(res *simrt.Result, sig string) bool {
	for _, v := range res.Violations {
		if v.Sig == sig {
			return true
		}
	}
	return false
}

// minimise shrinks the choice list while the same violation signature recurs.
func minimise(t *testing.T, sc *props.Scenario, tier string, vals []int, sig string, budget int) ([]int, int) {
	execs := 0
	try := func(cand []int) bool {
		if execs >= budget {
			return false
		}
		execs++
		res := runOnce(t, sc, simrt.NewReplayChoice(cand), tier, false)
		return hasSig(res, sig)
	}
	best := append([]int(nil), vals...)
	// 1. shortest prefix (rest zeros)
	lo, hi := 0, len(best)
	for lo < hi && execs < budget {
		mid := (lo + hi) / 2
		if try(best[:mid]) {
			hi = mid
		} else {
			lo = mid + 1
		}
	}
	if hi < len(best) && try(best[:hi]) {
		best = append([]int(nil), best[:hi]...)
	}
	// 2. zero blocks
	for bs := 64; bs >= 1 && execs < budget; bs /= 4 {
		for i := 0; i < len(best) && execs < budget; i += bs {
			j := i + bs
			if j > len(best) {
				j = len(best)
			}
			allZero := true
			for _, v := range best[i:j] {
				if v != 0 {
					allZero = false
				}
			}
			if allZero {
				continue
			}
			cand := append([]int(nil), best...)
			for k := i; k < j; k++ {
				cand[k] = 0
			}
			if try(cand) {
				best = cand
			}
		}
	}
	// 3. delete single draws (shifts the rest left)
	for i := len(best) - 1; i >= 0 && execs < budget; i-- {
		cand := append(append([]int(nil), best[:i]...), best[i+1:]...)
		if try(cand) {
			best = cand
		}
	}
	// 4. lower values
	for i := 0; i < len(best) && execs < budget; i++ {
		for best[i] > 0 && execs < budget {
			cand := append([]int(nil), best...)
			cand[i] = best[i] / 2
			if try(cand) {
				best = cand
			} else {
				break
			}
		}
	}
	// trim trailing zeros
	for len(best) > 0 && best[len(best)-1] == 0 {
		best = best[:len(best)-1]
	}
	return best, execs
}

func TestWorker(t *testing.T) {
	prop := os.Getenv("VERIF_PROP")
	if prop == "" {
		t.Skip("VERIF_PROP not set")
	}
	sc := props.Get(prop)
	if sc == nil {
		fmt.Fprintf(os.Stderr, "unknown property %s\n", prop)
		os.Exit(2)
	}
	tier := os.Getenv("VERIF_TIER")
	if tier == "" {
		tier = "quick"
	}
	outPath := os.Getenv("VERIF_OUT")
	out := os.Stdout
	if outPath != "" {
		f, err := os.Create(outPath)
		if err != nil {
			fmt.Fprintln(os.Stderr, err)
			os.Exit(2)
		}
		defer f.Close()
		out = f
	}
	bw := bufio.NewWriter(out)
	defer bw.Flush()
	emit := func(m msg) {
		b, _ := json.Marshal(m)
		bw.Write(b)
		bw.WriteByte('\n')
		bw.Flush()
	}
	worker := int(envInt("VERIF_WORKER", 0))

	if rp := os.Getenv("VERIF_REPLAY"); rp != "" {
		b, err := os.ReadFile(rp)
		if err != nil {
			fmt.Fprintln(os.Stderr, err)
			os.Exit(2)
		}
		var r Replay
		if err := json.Unmarshal(b, &r); err != nil {
			fmt.Fprintln(os.Stderr, err)
			os.Exit(2)
		}
		if r.Tier != "" {
			tier = r.Tier
		}
		res := runOnce(t, sc, simrt.NewReplayChoice(r.Choices), tier, os.Getenv("VERIF_TRACE") != "")
		var sigs []string
		for _, v := range res.Violations {
			sigs = append(sigs, v.Sig)
			if os.Getenv("VERIF_TRACE") != "" {
				fmt.Fprintf(os.Stderr, "VIOLATION %s\n%s\n", v.Sig, v.Detail)
			}
		}
		emit(msg{Type: "replay", Sigs: sigs, SchedHash: res.SchedHash, Steps: int64(res.Steps)})
		return
	}

	seed := envInt("VERIF_SEED", 1)
	workers := envInt("VERIF_WORKERS", 1)
	budget := time.Duration(envInt("VERIF_BUDGET_MS", 30000)) * time.Millisecond
	maxRuns := envInt("VERIF_MAXRUNS", 1<<40)
	replayDir := os.Getenv("VERIF_REPLAY_DIR")
	if replayDir == "" {
		replayDir = "."
	}
	var knownPats []string
	if kp := os.Getenv("VERIF_KNOWN_SIGS"); kp != "" {
		json.Unmarshal([]byte(kp), &knownPats)
	}
	isKnown := func(sig string) bool {
		for _, p := range knownPats {
			if globMatch(p, sig) {
				return true
			}
		}
		return false
	}

	var hashLog *os.File
	if hp := os.Getenv("VERIF_HASHLOG"); hp != "" {
		hashLog, _ = os.Create(hp)
		defer hashLog.Close()
	}
	start := time.Now()
	sum := msg{Type: "summary", Worker: worker, Probes: map[string]int{}, Faults: map[string]int{}, SigCounts: map[string]int{}}
	hashes := map[uint64]bool{}
	states := map[string]bool{}
	reported := map[string]bool{}
	var pending []Replay
	for i := int64(0); i < maxRuns; i++ {
		if time.Since(start) > budget {
			break
		}
		run := int64(worker) + i*workers
		c := simrt.NewSearchChoice(seed, run)
		res := runOnce(t, sc, c, tier, false)
		if hashLog != nil {
			var sg []string
			for _, v := range res.Violations {
				sg = append(sg, v.Sig)
			}
			fmt.Fprintf(hashLog, "%d %x %d %d %v\n", run, res.SchedHash, res.Steps, len(c.Rec), sg)
		}
		if res.Probes["mode.pure_input_enumeration"] > 0 {
			sum.PureRuns++
		}
		sum.Runs++
		sum.Steps += int64(res.Steps)
		sum.SimS += res.SimTime.Seconds()
		if res.Stuck {
			sum.Stuck++
		}
		if res.StepCap {
			sum.StepCap++
		}
		if len(res.Live) > 0 {
			sum.Leaky++
		}
		for k, v := range res.Probes {
			sum.Probes[k] += v
		}
		for k, v := range res.Faults {
			sum.Faults[k] += v
		}
		if len(res.Faults) == 0 {
			sum.FaultFree++
		}
		for k := range res.States {
			states[k] = true
		}
		if res.Nontrivial {
			sum.Nontrivial++
			h := res.SchedHash
			if h == 0 {
				// pure runs: hash the draws
				for _, d := range c.Rec {
					h = h*1099511628211 + uint64(d.V) + 1
				}
			}
			hashes[h] = true
		}
		if res.Sample != "" && len(sum.Samples) < 3 && (res.Nontrivial || i < 3) {
			sum.Samples = append(sum.Samples, res.Sample)
		}
		for _, v := range res.Violations {
			sum.SigCounts[v.Sig]++
			if reported[v.Sig] {
				continue
			}
			reported[v.Sig] = true
			rp := Replay{Property: prop, Tier: tier, Seed: seed, Run: run, Sig: v.Sig, Detail: v.Detail,
				Choices: c.Values(), SchedHash: res.SchedHash, Steps: res.Steps, OrigDraws: len(c.Rec), Sample: res.Sample}
			pending = append(pending, rp)
			// write the unminimised replay at once: a violation already found must survive a worker
			// that later dies (e.g. the defect under test exhausts memory); the minimised one replaces it
			name := fmt.Sprintf("%s/%s-%s-seed%d-run%d.json", replayDir, prop, sanitize(rp.Sig), seed, rp.Run)
			if b, err := json.MarshalIndent(rp, "", " "); err == nil && os.WriteFile(name, b, 0o644) == nil {
				emit(msg{Type: "violation", Worker: worker, Sig: rp.Sig, Detail: rp.Detail, Replay: name, Run: rp.Run})
			}
		}
		releaseMemoryIfLarge()
	}
	// minimise after the exploration budget, so that many distinct signatures do not starve the search
	minStart := time.Now()
	for _, rp := range pending {
		if !isKnown(rp.Sig) && time.Since(minStart) < 45*time.Second {
			minVals, execs := minimise(t, sc, tier, rp.Choices, rp.Sig, 200)
			mc := simrt.NewReplayChoice(minVals)
			mc.KeepLabels(true)
			mres := runOnce(t, sc, mc, tier, false)
			if hasSig(mres, rp.Sig) {
				rp.Choices = minVals
				rp.Minimised = true
				rp.Execs = execs
				rp.Labels = mc.Rec
				if len(rp.Labels) > len(minVals)+40 {
					rp.Labels = rp.Labels[:len(minVals)+40]
				}
				rp.SchedHash = mres.SchedHash
				rp.Steps = mres.Steps
				rp.Sample = mres.Sample
				for _, mv := range mres.Violations {
					if mv.Sig == rp.Sig {
						rp.Detail = mv.Detail
					}
				}
			}
		}
		name := fmt.Sprintf("%s/%s-%s-seed%d-run%d.json", replayDir, prop, sanitize(rp.Sig), seed, rp.Run)
		b, _ := json.MarshalIndent(rp, "", " ")
		os.WriteFile(name, b, 0o644)
		emit(msg{Type: "violation", Worker: worker, Sig: rp.Sig, Detail: rp.Detail, Replay: name, Run: rp.Run})
	}
	for h := range hashes {
		sum.Hashes = append(sum.Hashes, strconv.FormatUint(h, 16))
	}
	sort.Strings(sum.Hashes)
	for s := range states {
		sum.States = append(sum.States, s)
	}
	sort.Strings(sum.States)
	sum.WallS = time.Since(start).Seconds()
	emit(sum)
}

// releaseMemoryIfLarge hands memory back to the operating system after a run that made the
// process large (a defect under test may allocate gigabytes per run; sixteen workers doing so
// at once would otherwise be killed by the kernel before they can report).
func releaseMemoryIfLarge() {
	smp := []metrics.Sample{{Name: "/memory/classes/total:bytes"}, {Name: "/memory/classes/heap/released:bytes"}}
	metrics.Read(smp)
	if smp[0].Value.Kind() != metrics.KindUint64 || smp[1].Value.Kind() != metrics.KindUint64 {
		return
	}
	if smp[0].Value.Uint64()-smp[1].Value.Uint64() > 1<<30 {
		debug.FreeOSMemory()
	}
}

func sanitize(s string) string {
	b := []byte(s)
	for i, c := range b {
		if !(c >= 'a' && c <= 'z' || c >= 'A' && c <= 'Z' || c >= '0' && c <= '9' || c == '-' || c == '_' || c == '.') {
			b[i] = '_'
		}
	}
	if len(b) > 80 {
		b = b[:80]
	}
	return string(b)
}

func TestMeta(t *testing.T) {
	prop := os.Getenv("VERIF_PROP")
	if prop == "" {
		t.Skip()
	}
	sc := props.Get(prop)
	if sc == nil {
		fmt.Println("{}")
		return
	}
	b, _ := json.Marshal(map[string]any{"level": sc.Level, "rule": sc.Rule, "real": sc.Real, "stub": sc.Stub, "assumptions": sc.Assumptions})
	fmt.Println(string(b))
}

// globMatch: '*' in pattern matches any text.
func globMatch(pattern, sig string) bool {
	parts := strings.Split(pattern, "*")
	if len(parts) == 1 {
		return pattern == sig
	}
	if !strings.HasPrefix(sig, parts[0]) {
		return false
	}
	rest := sig[len(parts[0]):]
	for i := 1; i < len(parts); i++ {
		p := parts[i]
		if i == len(parts)-1 {
			return strings.HasSuffix(rest, p)
		}
		j := strings.Index(rest, p)
		if j < 0 {
			return false
		}
		rest = rest[j+len(p):]
	}
	return true
}
