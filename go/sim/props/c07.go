package props

import (
	"fmt"
	"sort"
	"strings"
	"time"

	"tunnox-core/internal/packet"
	"tunnox-core/internal/protocol/session"
	"tunnox-core/verifsim/simnet"
	"tunnox-core/verifsim/simnode"
	"tunnox-core/verifsim/simrt"
	"tunnox-core/verifsim/simstore"
)

// C07 — the server's view of control connections is consistent, one per client.
//
// World: a real wired node (SessionManager, client registry, connection
// lifecycle, stale sweep on its real ticker, BaseAdapter read loops) with an
// auth handler double that approves whatever identity the script claims
// (identity proof is C03's business). 2-3 client ids over up to 6 simulated
// transports. Sequential mode checks the invariants after every operation
// has settled; concurrent mode runs 2-3 actors at once and checks lookups at
// every observation plus the settled end state.

type c07auth struct{}

func (c07auth) HandleHandshake(conn session.ControlConnectionInterface, req *packet.HandshakeRequest) (*packet.HandshakeResponse, error) {
	if req.ClientID <= 0 {
		return &packet.HandshakeResponse{Success: false, Error: "bad id"}, fmt.Errorf("bad id")
	}
	conn.SetClientID(req.ClientID)
	conn.SetAuthenticated(true)
	return &packet.HandshakeResponse{Success: true, ClientID: req.ClientID}, nil
}
func (c07auth) GetClientConfig(conn session.ControlConnectionInterface) (string, error) { return "", nil }

// c07tunnel approves every TunnelOpen: whether a tunnel may be opened is C04's business; here a
// TunnelOpen is the event that turns a (possibly registered, indexed) connection into a data connection.
type c07tunnel struct{}

func (c07tunnel) HandleTunnelOpen(conn session.ControlConnectionInterface, req *packet.TunnelOpenRequest) error {
	return nil
}

type c07conn struct {
	cl       *simnode.Client
	srvID    string
	ids      []int64 // ids it handshook as (control type), in order
	tunnelID int64
	closedBy string // "", "client", "server-api"
	hs       bool   // sent at least one successful handshake
	lastType string // type and id of the latest successful handshake of any type
	lastID   int64
	lastActive time.Duration // simulated time of the connect or of the latest heartbeat sent
	tunnelMode bool          // sent TunnelOpen: the server treats it as a data connection from then on
}

func (c *c07conn) name() string { return c.cl.Name }

func init() {
	Register(&Scenario{
		ID:    "C07",
		Level: "exploration",
		Rule: "each run wires a real node with MaxControlConnections in {0,1,2,3}, heartbeat timeout 60 s / sweep 15 s on the simulated clock, and draws 5-25 operations over 2-3 client ids and up to 6 transports: connect, handshake as X (control or tunnel type), handshake again as Y on the same connection, duplicate login of X on another connection, KickOldControlConnection, heartbeat, silence longer than the heartbeat timeout, a login timed to the very sweep instant that finds the connection silent, TunnelOpen on a (control) connection (approve-all tunnel handler), server-side CloseConnection, client-side close (EOF in the read loop). Sequential mode (2/3 of runs) lets every operation settle and then checks: every by-client lookup is nil or a connection that is in the connection map, authenticated, carries that client id and whose transport is open; every closed or evicted transport is returned by no lookup; after everything is closed all counts are zero. Concurrent mode runs 2-3 actors simultaneously with statement-level interleavings, checks lookup well-formedness at every observation and the same end state. " +
			"Non-trivial: at least one duplicate login, re-authentication, kick, sweep eviction or cap eviction happened; distinct = distinct schedule hashes.",
		Real: []string{"internal/protocol/session SessionManager, ClientRegistry, connection lifecycle, control connection manager, handshake handler, stale sweep", "internal/protocol/adapter BaseAdapter read loop and cleanup", "internal/stream StreamProcessor", "cloud control + client state service on the memory backend"},
		Stub: []string{"transport: simnet", "auth handler: approves the claimed id (C03 covers proof of identity)"},
		Assumptions: []string{"a lookup answering nil for a live client is allowed by the property text and not flagged"},
		Opt: func(tier string) simrt.Options { return simrt.Options{MaxSteps: 2000000} },
		Run: c07Run,
	})
}

func c07Run(w *simrt.World, tier string) {
	c := w.C
	mem := simstore.NewMemory(w)
	st := simstore.New(w, "n1", mem)
	maxCtl := []int{0, 2, 1, 3}[c.Intn(4, "maxctl")]
	concurrent := c.Intn(3, "mode") == 2
	var node *simnode.Node
	var err error
	w.Quiet(func() {
		node, err = simnode.New(w, st, simnode.Config{NodeID: "n1", Session: &session.SessionConfig{
			HeartbeatTimeout: 60 * time.Second, CleanupInterval: 15 * time.Second, MaxConnections: 0, MaxControlConnections: maxCtl}})
		if err == nil {
			node.SM.SetAuthHandler(c07auth{})
			node.SM.SetTunnelHandler(c07tunnel{})
		}
	})
	if err != nil {
		w.Violationf("C07:harness", "wiring: %v", err)
		return
	}
	// storage faults (a third of the runs): the registry's in-memory consistency must not depend on
	// the cloud-control / connection-state writes succeeding
	if c.Intn(3, "store.faults") == 2 {
		st.FailNum, st.FailDen = 1, 6
		st.Filter = func(op, key string) bool { return op == "Delete" || op == "Set" }
		w.Probe("store-faults-enabled")
	}
	t0 := w.Now() // the sweep ticker fires at t0 + k*15 s
	ids := []int64{1001, 1002, 1003}[:2+c.Intn(2, "nids")]
	var conns []*c07conn
	var lastHS *c07conn
	nconn := 0
	var hist []string
	interesting := false
	log := func(f string, a ...any) { hist = append(hist, fmt.Sprintf("%8s ", w.Now().Truncate(time.Millisecond))+fmt.Sprintf(f, a...)) }

	newConn := func() *c07conn {
		nconn++
		cc := &c07conn{cl: node.Connect(fmt.Sprintf("t%d", nconn-1), fmt.Sprintf("10.2.0.%d:5000", nconn), simnet.LinkConfig{})}
		cc.lastActive = w.Now()
		conns = append(conns, cc)
		return cc
	}
	resolve := func() {
		for _, cc := range conns {
			if cc.srvID == "" {
				cc.srvID = node.ConnID(cc.cl)
			}
		}
	}
	connBySrvID := func(id string) *c07conn {
		for _, cc := range conns {
			if cc.srvID != "" && cc.srvID == id {
				return cc
			}
		}
		return nil
	}
	transportOpen := func(cc *c07conn) bool { return !cc.cl.Srv.Closed() && !cc.cl.Conn.Closed() }
	// a settled check that fails is re-evaluated one simulated second later and only reported if it
	// still fails: the 15 s sweep may be in the middle of an eviction at the very instant of a check
	report := true
	viol := func(sig, f string, a ...any) {
		if report {
			w.Violationf(sig, f, a...)
		}
	}

	// lookupsWellFormed: conditions (i)-(iv) for every by-client lookup
	lookupsWellFormed := func(when string, settled bool) bool {
		resolve()
		for _, id := range ids {
			lc := node.SM.GetControlConnectionByClientID(id)
			if lc == nil {
				continue
			}
			cc := connBySrvID(lc.GetConnID())
			if !lc.IsAuthenticated() {
				viol("C07:lookup:not-authenticated", "%s: lookup(%d) returns %s which is not authenticated\n%s", when, id, lc.GetConnID(), strings.Join(hist, "\n"))
				return false
			}
			gotID := lc.GetClientID() // read once: a re-handshake may rewrite it between two reads
			if gotID != id && !settled {
				// concurrent observation: the lookup and this read are two steps, and a re-handshake on that
				// connection may have landed in between (at the instant the lookup returned the answer was
				// right). Only a stale index entry is a violation: it persists when the lookup is repeated.
				persistent := true
				for try := 0; try < 3 && persistent; try++ {
					w.Yield("c07.recheck")
					again := node.SM.GetControlConnectionByClientID(id)
					if again == nil || again.GetConnID() != lc.GetConnID() || again.ClientID == id {
						persistent = false
					}
				}
				if !persistent {
					w.Probe("transient-identity-change-between-lookup-and-read")
					continue
				}
			}
			if gotID != id {
				viol("C07:lookup:belongs-to-other-client:"+c07why(cc, id), "%s: lookup(%d) returns connection %s whose client id is %d\n%s", when, id, lc.GetConnID(), gotID, strings.Join(hist, "\n"))
				return false
			}
			if !settled {
				continue
			}
			if _, ok := node.SM.GetConnection(lc.GetConnID()); !ok {
				viol("C07:lookup:connection-not-in-map:"+c07why(cc, id), "%s: lookup(%d) returns %s which the session's connection map no longer holds\n%s", when, id, lc.GetConnID(), strings.Join(hist, "\n"))
				return false
			}
			if cc != nil && !transportOpen(cc) {
				viol("C07:lookup:closed-transport:"+c07why(cc, id), "%s: lookup(%d) returns %s (%s) whose transport is closed (closed by %q)\n%s", when, id, lc.GetConnID(), cc.name(), cc.closedBy, strings.Join(hist, "\n"))
				return false
			}
		}
		return true
	}
	// closedNowhere: a closed/evicted transport is returned by no lookup
	closedNowhere := func(when string) bool {
		resolve()
		for _, cc := range conns {
			if cc.srvID == "" || transportOpen(cc) {
				continue
			}
			if x := node.SM.GetControlConnection(cc.srvID); x != nil {
				viol("C07:closed:still-in-control-registry:"+c07closedClass(cc), "%s: %s (%s) is closed (by %q) but GetControlConnection still returns it\n%s", when, cc.name(), cc.srvID, cc.closedBy, strings.Join(hist, "\n"))
				return false
			}
			if _, ok := node.SM.GetConnection(cc.srvID); ok {
				viol("C07:closed:still-in-connection-map:"+c07closedClass(cc), "%s: %s (%s) is closed (by %q) but GetConnection still returns it\n%s", when, cc.name(), cc.srvID, cc.closedBy, strings.Join(hist, "\n"))
				return false
			}
			for _, a := range node.SM.GetClientRegistry().ListAuthenticated() {
				if a.GetConnID() == cc.srvID {
					viol("C07:closed:still-listed-authenticated:"+c07closedClass(cc), "%s: %s is closed but still listed as authenticated\n%s", when, cc.name(), strings.Join(hist, "\n"))
					return false
				}
			}
		}
		return true
	}
	// serverClosedMeansTransportClosed: anything the server dropped from its maps after a handshake must have its transport closed
	evictedAreClosed := func(when string) bool {
		resolve()
		for _, cc := range conns {
			if cc.srvID == "" || !cc.hs || !transportOpen(cc) {
				continue
			}
			_, inMap := node.SM.GetConnection(cc.srvID)
			inReg := node.SM.GetControlConnection(cc.srvID) != nil
			if !inMap && !inReg {
				viol("C07:evicted:transport-left-open", "%s: the session forgot %s (%s) entirely but its transport is still open\n%s", when, cc.name(), cc.srvID, strings.Join(hist, "\n"))
				return false
			}
			// a connection whose latest successful handshake made it a control connection and which the control
			// registry no longer holds has been evicted (superseded, kicked, swept): its transport must be closed
			if cc.lastType == "control" && !inReg {
				viol("C07:evicted:transport-left-open:dropped-from-control-registry", "%s: %s (%s) completed a control handshake as client %d, the control registry no longer holds it, but its transport is still open (in connection map: %v)\n%s", when, cc.name(), cc.srvID, cc.lastID, inMap, strings.Join(hist, "\n"))
				return false
			}
		}
		return true
	}

	var oneCurrent func(when string) bool
	settledOK := func(when string) bool {
		report = false
		ok := lookupsWellFormed(when, true) && closedNowhere(when) && evictedAreClosed(when) && oneCurrent(when)
		report = true
		if ok {
			return true
		}
		w.Sleep(1100 * time.Millisecond)
		return lookupsWellFormed(when, true) && closedNowhere(when) && evictedAreClosed(when) && oneCurrent(when)
	}

	// oneCurrent: at most one open, registered, authenticated control connection per client id
	oneCurrent = func(when string) bool {
		resolve()
		seen := map[int64]string{}
		for _, a := range node.SM.GetClientRegistry().ListAuthenticated() {
			cc := connBySrvID(a.GetConnID())
			if cc == nil || !transportOpen(cc) || a.GetClientID() <= 0 {
				continue
			}
			// only connections whose latest handshake was a control-type handshake as this client: a tunnel-type
			// connection of the same client is registered and authenticated too, but is not a control channel
			if cc.lastType != "control" || cc.lastID != a.GetClientID() {
				continue
			}
			if other, dup := seen[a.GetClientID()]; dup {
				viol("C07:duplicate:two-open-control-connections-for-one-client", "%s: client %d has two open authenticated control connections registered: %s and %s\n%s", when, a.GetClientID(), other, cc.name(), strings.Join(hist, "\n"))
				return false
			}
			seen[a.GetClientID()] = cc.name()
		}
		return true
	}

	handshake := func(cc *c07conn, id int64, ctype string) {
		resp, ok := cc.cl.Handshake(&packet.HandshakeRequest{ClientID: id, Version: "3", Protocol: "tcp", ConnectionType: ctype})
		log("%s handshake id=%d type=%s → ok=%v success=%v", cc.name(), id, ctype, ok, ok && resp.Success)
		if ok && resp.Success {
			cc.hs = true
			if !cc.tunnelMode { // a TunnelOpen sent by another actor meanwhile is processed after this handshake
				cc.lastType, cc.lastID = ctype, id
			}
			if ctype == "control" {
				if len(cc.ids) > 0 && cc.ids[len(cc.ids)-1] != id {
					interesting = true
					w.Probe("reauth-as-other-client")
				}
				for _, oc := range conns {
					if oc != cc && len(oc.ids) > 0 && oc.ids[len(oc.ids)-1] == id && transportOpen(oc) {
						interesting = true
						w.Probe("duplicate-login")
					}
				}
				cc.ids = append(cc.ids, id)
			} else {
				cc.tunnelID = id
			}
		}
	}

	op := func(actor int, k int) {
		// pick or create a connection
		var cc *c07conn
		if len(conns) == 0 || (len(conns) < 6 && k%5 == 0) {
			cc = newConn()
			log("connect %s", cc.name())
		} else {
			cc = conns[w.Draw(len(conns), "conn")]
		}
		kind := w.Draw(11, "op")
		if cc.tunnelMode && kind != 5 && kind != 6 && kind != 8 {
			kind = 5 + w.Draw(2, "tunnelmode.close") // a data connection is only closed, by either side
		}
		if !transportOpen(cc) && (kind < 6 || kind >= 9) {
			if len(conns) < 6 {
				cc = newConn()
				log("connect %s", cc.name())
			} else {
				return
			}
		}
		id := ids[w.Draw(len(ids), "id")]
		if concurrent && (kind == 5 || kind == 6) && lastHS != nil && lastHS != cc && w.Draw(2, "close.racing-handshake") == 1 {
			cc = lastHS // close the connection another actor is handshaking on right now
			w.Probe("close-racing-handshake")
		}
		if kind <= 3 || kind == 9 {
			lastHS = cc
		}
		switch kind {
		case 10:
			// TunnelOpen on this connection (after a control login this is a client that reuses its control
			// connection as a data connection): the server takes it out of the control registry
			nconn++
			req := &packet.TunnelOpenRequest{TunnelID: fmt.Sprintf("c07-tun-%d", nconn), MappingID: "c07-map"}
			cc.tunnelMode = true
			cc.lastType = "tunnel-open"
			err := cc.cl.SendJSON(packet.TunnelOpen, req)
			log("%s sends TunnelOpen err=%v", cc.name(), err)
			w.Probe("tunnel-open-on-connection")
			if len(cc.ids) > 0 {
				interesting = true
				w.Probe("tunnel-open-on-control-connection")
			}
		case 9:
			// a late login racing the sweep: wait for the first sweep instant at which this connection
			// counts as silent for longer than the heartbeat timeout, and log in at that very instant
			due := cc.lastActive + 60*time.Second
			k := (due-t0)/(15*time.Second) + 1
			if at := t0 + k*15*time.Second; at > w.Now() {
				w.Sleep(at - w.Now())
			}
			log("%s logs in at the sweep instant that finds it silent", cc.name())
			w.Probe("login-racing-sweep")
			interesting = true
			handshake(cc, id, "control")
		case 0, 1, 2:
			handshake(cc, id, "control")
		case 3:
			handshake(cc, id, "tunnel")
		case 4:
			err := cc.cl.Send(packet.Heartbeat, nil)
			cc.lastActive = w.Now()
			log("%s heartbeat err=%v", cc.name(), err)
		case 5:
			cc.cl.Close()
			if cc.closedBy == "" {
				cc.closedBy = "client"
			}
			log("%s client closes", cc.name())
		case 6:
			resolve()
			if cc.srvID != "" {
				node.SM.CloseConnection(cc.srvID)
				if cc.closedBy == "" {
					cc.closedBy = "server-api"
				}
				log("CloseConnection(%s)", cc.name())
			}
		case 7:
			resolve()
			if cc.srvID != "" {
				node.SM.KickOldControlConnection(id, cc.srvID)
				log("KickOldControlConnection(%d, new=%s)", id, cc.name())
				interesting = true
				w.Probe("kick")
			}
		default:
			d := []time.Duration{time.Second, 20 * time.Second, 50 * time.Second, 80 * time.Second}[w.Draw(4, "gap")]
			w.Sleep(d)
			log("+%v", d)
			if d > 60*time.Second {
				w.Probe("silence-past-timeout")
			}
		}
	}

	nops := 5 + c.Intn(21, "nops")
	if !concurrent {
		w.Probe("mode.sequential")
		for k := 0; k < nops; k++ {
			op(0, k)
			w.Sleep(2 * time.Second) // settle: read loops, cleanups, async pushes
			if !settledOK("after op") {
				return
			}
			for _, cc := range conns {
				if cc.hs && cc.closedBy == "" && !transportOpen(cc) {
					cc.closedBy = "server-evicted"
					interesting = true
					w.Probe("server-evicted")
				}
			}
		}
	} else {
		w.Probe("mode.concurrent")
		nact := 2 + c.Intn(2, "nactors")
		var ts []*simrt.Task
		stop := false
		for a := 0; a < nact; a++ {
			a := a
			ts = append(ts, w.Spawn(fmt.Sprintf("actor%d", a), func() {
				for k := 0; k < nops/nact+1; k++ {
					op(a, k+1)
				}
			}))
		}
		obs := w.Spawn("observer", func() {
			for !stop {
				w.Yield("c07.observe")
				if !lookupsWellFormed("concurrent observation", false) {
					return
				}
				w.Sleep(300 * time.Millisecond)
			}
		})
		for _, t := range ts {
			t.Wait()
		}
		stop = true
		obs.Wait()
		w.Sleep(3 * time.Second)
		if !settledOK("settled after concurrent phase") {
			return
		}
	}
	// end state: close everything, counts return to zero
	for _, cc := range conns {
		cc.cl.Close()
	}
	w.Sleep(5 * time.Second)
	if n := node.SM.GetClientRegistry().Count(); n != 0 {
		w.Violationf("C07:counts:control-registry-not-empty", "all transports are closed but the control registry still counts %d\n%s", n, strings.Join(hist, "\n"))
		return
	}
	if n := len(node.SM.ListConnections()); n != 0 {
		w.Violationf("C07:counts:connection-map-not-empty", "all transports are closed but the connection map still holds %d\n%s", n, strings.Join(hist, "\n"))
		return
	}
	for _, id := range ids {
		if lc := node.SM.GetControlConnectionByClientID(id); lc != nil {
			cc := connBySrvID(lc.GetConnID())
			viol("C07:lookup:closed-transport:"+c07why(cc, id), "all transports are closed but lookup(%d) still returns %s\n%s", id, lc.GetConnID(), strings.Join(hist, "\n"))
			return
		}
	}
	if interesting {
		w.Nontrivial()
	}
	sort.Strings(nil)
	w.Sample(fmt.Sprintf("maxctl=%d concurrent=%v: %s", maxCtl, concurrent, strings.Join(tailStr(hist, 16), " ; ")))
	node.Close()
}

// c07why classifies how the returned connection relates to the client id.
func c07why(cc *c07conn, id int64) string {
	if cc == nil {
		return "unknown-connection"
	}
	last := int64(0)
	if len(cc.ids) > 0 {
		last = cc.ids[len(cc.ids)-1]
	}
	was := false
	for _, x := range cc.ids {
		if x == id {
			was = true
		}
	}
	switch {
	case was && last != id:
		return "reauthenticated-as-another-client"
	case was:
		return "current-id"
	case cc.tunnelID == id:
		return "tunnel-type-handshake"
	}
	return "never-that-client"
}

func c07closedClass(cc *c07conn) string {
	cls := cc.closedBy
	if cls == "" {
		cls = "server-evicted"
	}
	if len(cc.ids) > 1 {
		cls += ":multi-identity"
	}
	return cls
}
