package props

import (
	"context"
	"encoding/json"
	"fmt"
	"sort"
	"strconv"
	"strings"
	"time"

	"tunnox-core/internal/cloud/models"
	"tunnox-core/internal/cloud/services"
	"tunnox-core/internal/packet"
	"tunnox-core/internal/protocol/httptypes"
	"tunnox-core/internal/protocol/session"
	"tunnox-core/internal/security"
	"tunnox-core/verifsim/simnet"
	"tunnox-core/verifsim/simnode"
	"tunnox-core/verifsim/simrt"
	"tunnox-core/verifsim/simstore"
)

// C11 — control commands act with the connection's proven identity only.
//
// World: one fully wired real server node (simnode, Config.Commands=true: the
// four handler sets the server registers + the special cases of
// handleCommandPacket) on the real memory backend. Clients A, B, S register
// over the wire; O registers and goes offline; U0 never sends a handshake; U1
// has only asked for a challenge for A's id (never answered). Objects are
// created through the real services (port mappings, connection codes, HTTP
// domain mappings) and recorded by the harness with their parties.
//
// The oracle never looks at what the handlers think: the sender's identity is
// what the handshake replies on that transport proved, ownership is what the
// harness created, the effects are the difference between two dumps of the
// whole store and what arrived on every transport.

// c11FlagUnrelatedReach: when true, a command whose purpose is to reach another
// client (DNS / SOCKS5 forwarding) delivering a packet to a client with which the
// authenticated sender shares no mapping is reported (class "reach:unrelated-client").
// The property text does not clearly forbid that, so it is off: the reach oracle
// flags only unauthenticated senders, forged sender ids in what is delivered, and
// disclosure to the receiver.
const c11FlagUnrelatedReach = false

type c11obj struct {
	kind   string // mapping | code | domain | client
	name   string
	id     string   // identifier used in requests (mapping id, code, domain mapping id)
	idents []string // every string that identifies or belongs to the object (ids, secrets, unique addresses, names)
	// nstrong: idents[:nstrong] are record ids and secrets, which only this object's records carry;
	// the rest are names and addresses: a resource another object may come to hold once this one let go of
	// it. Whose a stored key is follows the record ids it holds, never the name it is filed under.
	nstrong int
	parties map[int64]bool
	sub     string // domain: subdomain
	gone    bool   // deleted by a party through a command (the model follows permitted effects)
}

type c11conn struct {
	name   string
	cl     *simnode.Client
	id     int64 // identity proven on this transport according to the handshake replies the harness saw
	closed bool
	inbox  []*packet.TransferPacket
	// congested: the link's buffers are tiny, the server's writes to it block until the harness reads
	congested bool
}

type c11step struct {
	kind    int // 0 plain command, 1 forged DNS answer, 2 forged HTTP proxy answer, 3 overlapped pair (storage stall), 4 command, re-handshake as another client, command
	sender  int
	cmd     int
	target  int
	forge   int // 0 honest, 1 packet fields, 2 body fields, 3 both
	victim  int
	ptype   int // 0 JsonCommand, 1 CommandResp
	variant int
	n1, n2  int
	fault   int  // 0 none, k>0: the k-th store operation after the send fails
	churn   bool // the sender's transport is closed right after the request was written
	twin    bool // overlapped pair: the second command is the same request for the same object, from another connection
}

type c11snap struct {
	at   time.Duration
	vals map[string]string
	ttl  map[string]time.Duration
}

type c11run struct {
	w     *simrt.World
	node  *simnode.Node
	mem   c11raw
	st    *simstore.Store
	conns []*c11conn // U0 U1 A B S
	ids   map[string]int64
	objs  []*c11obj
	hist  []string
	seq   int
	nontr bool
	spare []*c11conn // registered, offline clients whose credentials a live transport may prove later
	// storage stall: the stallAt-th store operation of the run sleeps stallFor in its calling task
	stOps    int
	stallAt  int
	stallFor time.Duration
	stalled  bool
}

type c11raw interface {
	QueryByPrefix(prefix string, limit int) (map[string]string, error)
	GetExpiration(key string) (time.Duration, error)
}

var c11names = map[packet.CommandType]string{
	packet.ConnectionCodeGenerate:   "connection_code_generate",
	packet.ConnectionCodeList:       "connection_code_list",
	packet.ConnectionCodeActivate:   "connection_code_activate",
	packet.ConnectionCodeRevoke:     "connection_code_revoke",
	packet.MappingList:              "mapping_list",
	packet.MappingGet:               "mapping_get",
	packet.MappingDelete:            "mapping_delete",
	packet.ConfigGet:                "config_get",
	packet.HTTPDomainGetBaseDomains: "http_domain_get_base_domains",
	packet.HTTPDomainCheckSubdomain: "http_domain_check_subdomain",
	packet.HTTPDomainGenSubdomain:   "http_domain_gen_subdomain",
	packet.HTTPDomainCreate:         "http_domain_create",
	packet.HTTPDomainDelete:         "http_domain_delete",
	packet.HTTPDomainList:           "http_domain_list",
	packet.SOCKS5TunnelRequestCmd:   "socks5_tunnel_request",
	packet.DNSResolve:               "dns_resolve",
	packet.DNSQuery:                 "dns_query",
	packet.TunnelTrafficReport:      "traffic_report",
	packet.Disconnect:               "disconnect",
	packet.HTTPProxyResponse:        "http_proxy_response",
	packet.HTTPProxyRequest:         "http_proxy_request",
	packet.SendNotifyToClient:       "send_notify_to_client",
	packet.NotifyClientAck:          "notify_client_ack",
	packet.TcpMapCreate:             "tcp_map_create",
	packet.RpcInvoke:                "rpc_invoke",
	packet.KickClient:               "kick_client",
	packet.ConfigSet:                "config_set",
	packet.TunnelOpenRequestCmd:     "tunnel_open_request",
}

// commands that, by the protocol's own description, touch no client-owned
// state and reach nobody: serving them without authentication is not refused by
// the property text.
var c11public = map[packet.CommandType]bool{
	packet.HTTPDomainGetBaseDomains: true,
	packet.HTTPDomainGenSubdomain:   true,
}

func c11name(t packet.CommandType) string {
	if n, ok := c11names[t]; ok {
		return n
	}
	return fmt.Sprintf("cmd%d", int(t))
}

func init() {
	Register(&Scenario{
		ID:    "C11",
		Level: "exploration",
		Rule: "each run wires a real node with the command executor and all four handler sets, registers clients A, B, S (online) and O (offline) over the wire, opens U0 (no handshake) and U1 (challenge for A requested, never answered), creates a per-run drawn subset of objects through the real services (mappings A>O, B>O, socks A>B, a listener-less mapping 0>B and a target-less mapping A>0 (client id 0 = nobody), a code-activated mapping A>B, unactivated codes of A and B, HTTP domain mappings of A and B) and then sends 4-10 drawn commands. " +
			"The command type is drawn from the table read from the live registry plus the special-cased types of handleCommandPacket plus a few unregistered types; sender in {U0,U1,A,B,S}; target object in {A's, B's, shared, nonexistent}; identity fields (SenderId/ReceiverId/Token and client_id-like body fields) in {absent, victim's}; packet type in {JsonCommand, CommandResp}; optionally one injected store error, optionally the sender's transport is closed right after the request was written. Two composite steps answer a DNS forward / HTTP proxy request (to B, or to T whose link has a per-run drawn buffer of 48 bytes, 200 bytes or unbounded, so that the server's write of the request blocks until the harness reads) from a drawn connection, once while the request is still being delivered and once while the server waits. A fifth kind of step sends a command, lets the same transport complete a second handshake with the credentials of a registered offline client (O or P), and sends the next command: from the success reply on, the transport's identity is the new client. A fourth kind of step overlaps two commands of different connections (in half of the cases the second is the very same request for the very same object): a storage operation inside the first command's processing is held for 3 s, 47 s or 95 s of simulated time (shorter and longer than the executor's command timeout) and the second command is sent 0.2 s, 33 s or 61 s after the first, so that handlers outlive their Execute call while another connection's command is created and answered. Every command carries data only it supplies (description, new subdomain, addresses): a stored record with that data must name the identity of the connection the command arrived on, and neither an answer with another connection's command id nor another command's own data may arrive on a transport (unless a record naming the receiver holds it). " +
			"Around every command the whole store and every transport's inbox are diffed. Non-trivial: at least one command that names an existing harness-created object was sent by an unauthenticated connection, by a non-party, or with forged identity fields and was written to the server, or a forged answer was injected while the server really had the request pending at B. Distinct = distinct schedule hashes; w.State counts (command, sender role, target ownership, forge, packet type, outcome) cells.",
		Real: []string{"internal/command CommandRegistry/CommandExecutor and the HTTP-domain handlers", "internal/app/server connection-code, mapping, config and HTTP-domain command handler sets, ServerAuthHandler", "internal/protocol/session SessionManager: handleCommandPacket special cases (SOCKS5, DNS resolve/query, traffic report, disconnect, HTTP proxy response), client registry, BaseAdapter read loop", "internal/cloud services/repos (port mappings, connection codes, HTTP domain mappings, clients) on the real memory storage backend", "internal/stream StreamProcessor on both ends"},
		Stub: []string{"transport: simnet links", "peers: scripted clients (they never answer forwarded requests unless the step says so)", "slow storage: simstore Sync hook sleeping in the calling task", "no second node (cross-node DNS/HTTP forwarding is not reachable)"},
		Assumptions: []string{
			"identity of a transport = what the handshake replies on that transport proved (issued id on first connect); U1's unanswered challenge proves nothing",
			"a connection code is a bearer secret: an authenticated client presenting an unactivated code becomes a party to it by activating it",
			"http_domain_get_base_domains and http_domain_gen_subdomain read no client-owned state and may be served to anyone; every other dispatched command (including ones added later) must not succeed on an unauthenticated connection",
			"a change of a store key is attributed to the harness-known objects whose record ids or secrets, and to the clients whose ids, occur in the key or in the changed part of the value; a name (domain, address) alone does not make a key somebody's: a key filed under a name belongs to the record it points to; keys naming nobody (counters, global id lists) are not client-owned state",
			"an authenticated client reaching an unrelated authenticated client through DNS forwarding is not forbidden by the property text and is not flagged (c11FlagUnrelatedReach=false)",
		},
		Opt: func(tier string) simrt.Options {
			return simrt.Options{MaxSteps: 3000000, MaxIdle: 2 * time.Hour}
		},
		Run: c11Run,
	})
}

// ---------------------------------------------------------------------------

func c11Run(w *simrt.World, tier string) {
	c := w.C
	mem := simstore.NewMemory(w)
	st := simstore.New(w, "n1", mem)
	var node *simnode.Node
	var err error
	w.Quiet(func() {
		node, err = simnode.New(w, st, simnode.Config{NodeID: "n1", Commands: true,
			Session:     &session.SessionConfig{HeartbeatTimeout: 12 * time.Hour, CleanupInterval: 5 * time.Hour},
			RateLimitIP: &security.RateLimitConfig{Rate: 1000, Burst: 1000, TTL: time.Hour}})
	})
	if err != nil {
		w.Violationf("C11:harness", "node wiring failed: %v", err)
		return
	}
	defer node.Close()
	r := &c11run{w: w, node: node, mem: mem, st: st, ids: map[string]int64{}}
	st.Sync = func() {
		r.stOps++
		if r.stallAt > 0 && r.stOps >= r.stallAt && !r.stalled {
			r.stalled = true
			w.Fault("store.stall")
			w.Sleep(r.stallFor)
		}
	}

	// ---- command table: live registry + special cases + unregistered types
	var table []packet.CommandType
	seen := map[packet.CommandType]bool{}
	reg := node.Registry.ListHandlers()
	sort.Slice(reg, func(i, j int) bool { return reg[i] < reg[j] })
	for _, t := range reg {
		if !seen[t] {
			seen[t] = true
			table = append(table, t)
		}
	}
	for _, t := range []packet.CommandType{packet.SOCKS5TunnelRequestCmd, packet.DNSResolve, packet.DNSQuery, packet.TunnelTrafficReport, packet.Disconnect, packet.HTTPProxyResponse} {
		if !seen[t] {
			seen[t] = true
			table = append(table, t)
		}
	}
	ncore := len(table) // registry handlers + special cases
	for _, t := range []packet.CommandType{packet.SendNotifyToClient, packet.TcpMapCreate, packet.ConnectionCodeRevoke, packet.RpcInvoke, packet.CommandType(199)} {
		if !seen[t] {
			seen[t] = true
			table = append(table, t)
		}
	}

	// ---- the whole plan is drawn here, before any other task has run
	objMask := c.Intn(1024, "objects")             // zero draw = everything present
	tCap := []int{48, 0, 200}[c.Intn(3, "t.link")] // buffer of T's link; 0 = unbounded
	bOnline := c.Intn(4, "b.offline") != 3
	nsteps := 4 + c.Intn(7, "nsteps")
	if tier != "quick" {
		nsteps += c.Intn(8, "nsteps.more")
	}
	plan := make([]c11step, nsteps)
	for i := range plan {
		s := &plan[i]
		k := c.Intn(12, "step.kind")
		switch {
		case k == 10:
			s.kind = 1
		case k == 11:
			s.kind = 2
		case k == 8 || k == 9:
			s.kind = 3 // overlapped with the next step's command
		case k == 7:
			s.kind = 4 // the sender's transport re-handshakes as another client between this and the next command
		}
		s.sender = c.Intn(5, "sender")
		// registry handlers and special cases get most of the weight; the tail are unregistered types
		if tail := len(table) - ncore; tail > 0 && c.Intn(8, "cmd.tail") == 7 {
			s.cmd = ncore + c.Intn(tail, "cmd.unreg")
		} else {
			s.cmd = c.Intn(ncore, "cmd")
		}
		s.target = c.Intn(8, "target")
		s.forge = c.Intn(4, "forge")
		s.victim = c.Intn(4, "victim")
		s.ptype = 0
		if c.Intn(5, "ptype") == 4 {
			s.ptype = 1
		}
		s.variant = c.Intn(4, "variant")
		s.n1 = 1 + c.Intn(5000, "n1")
		s.n2 = 1 + c.Intn(5000, "n2")
		if c.Intn(6, "fault") == 5 {
			s.fault = 1 + c.Intn(6, "fault.k")
		}
		s.churn = c.Intn(12, "churn") == 11
		s.twin = c.Intn(2, "twin") == 1
	}

	// ---- clients
	link := simnet.LinkConfig{LawAB: simnet.LawAll, LawBA: simnet.LawAll}
	mk := func(name, addr string, register bool) *c11conn {
		l := link
		if name == "T" {
			l.Capacity = tCap
		}
		cc := &c11conn{name: name, cl: node.Connect(name, addr, l), congested: name == "T" && tCap > 0}
		if register {
			resp, ok := cc.cl.Register("control")
			if !ok || resp == nil || !resp.Success {
				w.Violationf("C11:harness", "registration of %s failed: %+v", name, resp)
				return nil
			}
			cc.id = resp.ClientID
			r.ids[name] = cc.id
		}
		return cc
	}
	cA := mk("A", "10.1.0.1:4000", true)
	cB := mk("B", "10.1.0.2:4000", true)
	cS := mk("S", "10.1.0.3:4000", true)
	cO := mk("O", "10.1.0.4:4000", true)
	cT := mk("T", "10.1.0.7:4000", true) // only ever the target of forwarded requests
	if cA == nil || cB == nil || cS == nil || cO == nil || cT == nil {
		return
	}
	if cT.congested {
		w.Probe("world.t-link-congested")
	}
	cO.cl.Close()
	cO.closed = true
	// P: a second registered client that is offline; O and P are the identities a live transport may re-handshake as
	cP := mk("P", "10.1.0.8:4000", true)
	if cP == nil {
		return
	}
	cP.cl.Close()
	cP.closed = true
	r.spare = []*c11conn{cO, cP}
	u0 := mk("U0", "10.1.0.5:4000", false)
	u1 := mk("U1", "10.1.0.6:4000", false)
	if resp, ok := u1.cl.Handshake(&packet.HandshakeRequest{ClientID: cA.id, Version: "3", Protocol: "tcp", ConnectionType: "control"}); !ok || resp == nil || resp.Success {
		w.Violationf("C11:harness", "phase-1 handshake on U1 did not produce a challenge: %+v", resp)
		return
	}
	if !bOnline {
		cB.cl.Close()
		cB.closed = true
		w.Probe("world.b-offline")
	}
	r.conns = []*c11conn{u0, u1, cA, cB, cS, cT} // senders are drawn among the first five
	w.Sleep(337 * time.Millisecond)
	for _, cc := range append(r.conns, cO, cP) {
		defer cc.cl.Close()
	}
	// every client's secret key belongs to that client alone
	for _, cc := range []*c11conn{cA, cB, cS, cO, cT, cP} {
		if cc.cl.Secret != "" {
			r.objs = append(r.objs, &c11obj{kind: "client", name: "secret." + cc.name, idents: []string{cc.cl.Secret}, nstrong: 1, parties: map[int64]bool{cc.id: true}})
		}
	}

	// ---- objects, through the real services
	A, B, O := cA.id, cB.id, cO.id
	has := func(bit int) bool { return objMask&(1<<bit) == 0 }
	if has(0) {
		r.mkMapping("M.A>O", A, O, models.ProtocolTCP, 1)
	}
	if has(1) {
		r.mkMapping("M.B>O", B, O, models.ProtocolTCP, 2)
	}
	if has(2) {
		r.mkMapping("M.A>B.socks", A, B, models.ProtocolSOCKS, 3)
	}
	if has(3) {
		r.mkCode("K.A", A, 4, 0, "")
	}
	if has(4) {
		r.mkCode("K.B", B, 5, 0, "")
	}
	if has(5) {
		r.mkCode("K.B.used", B, 6, A, "M.A>B.code")
	}
	if has(8) {
		// a mapping without a listen client (the node itself listens, as for HTTP mappings made by the
		// management API): its only party is the target client; client id 0 is nobody
		r.mkMapping("M.0>B.http", 0, B, models.ProtocolHTTP, 9)
	}
	if has(9) {
		r.mkMapping("M.A>0", A, 0, models.ProtocolTCP, 10)
	}
	if has(6) {
		r.mkDomain("D.A", A, "c11a", 7)
	}
	if has(7) {
		r.mkDomain("D.B", B, "c11b", 8)
	}
	if len(w.Res.Violations) > 0 {
		return
	}
	w.Sleep(53 * time.Millisecond)
	r.drain()

	// ---- run the plan
	skip := false
	for i := range plan {
		if skip {
			skip = false // consumed as the second command of an overlapped pair
			continue
		}
		s := &plan[i]
		snd := r.conns[s.sender]
		for _, cc := range r.conns {
			if !cc.closed && cc.cl.Srv.Closed() {
				cc.closed = true // the server closed it (disconnect command)
				cc.cl.Close()
			}
		}
		if snd.closed {
			// a closed transport cannot send; the first open one takes its place (derived, no redraw)
			snd = nil
			for _, cc := range []*c11conn{cS, cA, cB, u0} {
				if !cc.closed {
					snd = cc
					break
				}
			}
			if snd == nil {
				break
			}
		}
		switch {
		case s.kind == 1:
			r.forgedDNS(s, snd, table)
		case s.kind == 2:
			r.forgedHTTP(s, snd)
		case s.kind == 3 && i+1 < len(plan):
			// the next step's command is sent by another open transport while this one is being processed
			s2 := &plan[i+1]
			skip = true
			var y *c11conn
			for k := 0; k < 5; k++ {
				if cc := r.conns[(s2.sender+k)%5]; cc != snd && !cc.closed {
					y = cc
					break
				}
			}
			if y == nil {
				r.command(s, snd, table[s.cmd%len(table)])
				break
			}
			tx, ty := table[s.cmd%len(table)], table[s2.cmd%len(table)]
			if s.twin {
				// the very same request for the very same object, under another connection's identity
				t2 := *s2
				t2.target, t2.variant = s.target, s.variant
				s2, ty = &t2, tx
			}
			r.overlapped(s, s2, snd, y, tx, ty)
		case s.kind == 4 && i+1 < len(plan) && snd.id != 0 && len(r.spare) > 0:
			// command under the old identity, then the transport proves another client's credentials,
			// then the next step's command: it must act as the identity proven last
			skip = true
			r.command(s, snd, table[s.cmd%len(table)])
			if snd.closed || snd.cl.Srv.Closed() {
				break
			}
			r.rehandshake(snd)
			r.command(&plan[i+1], snd, table[plan[i+1].cmd%len(table)])
		default:
			r.command(s, snd, table[s.cmd%len(table)])
		}
		// each step is judged on its own; stop only when the run has produced plenty
		if len(w.Res.Violations) >= 4 {
			break
		}
	}
	if r.nontr {
		w.Nontrivial()
	}
	w.Sample(strings.Join(tailStr(r.hist, 10), " ; "))
}

// ---------------------------------------------------------------------------
// world construction helpers

func (r *c11run) logf(format string, a ...any) {
	r.hist = append(r.hist, fmt.Sprintf(format, a...))
}

func (r *c11run) mkMapping(name string, listen, target int64, proto models.Protocol, n int) *c11obj {
	sk := fmt.Sprintf("sk_c11_%d_%s", n, strings.Repeat("x", 8))
	taddr := fmt.Sprintf("10.9.%d.1:%d", n, 7000+n)
	laddr := fmt.Sprintf("0.0.0.0:%d", 17000+n)
	m, err := r.node.Cloud.CreatePortMapping(&models.PortMapping{
		ListenClientID: listen, TargetClientID: target, Protocol: proto,
		SourcePort: 17000 + n, TargetHost: fmt.Sprintf("10.9.%d.1", n), TargetPort: 7000 + n,
		ListenAddress: laddr, TargetAddress: string(proto) + "://" + taddr,
		SecretKey: sk, Status: models.MappingStatusActive, Type: models.MappingTypeAnonymous,
	})
	if err != nil {
		r.w.Violationf("C11:harness", "creating mapping %s failed: %v", name, err)
		return nil
	}
	o := &c11obj{kind: "mapping", name: name, id: m.ID, idents: []string{m.ID, sk, taddr, laddr}, nstrong: 2, parties: map[int64]bool{}}
	for _, id := range []int64{listen, target} {
		if id != 0 { // 0 is "no client", never an identity
			o.parties[id] = true
		}
	}
	r.objs = append(r.objs, o)
	return o
}

func (r *c11run) mkCode(name string, owner int64, n int, activator int64, mname string) {
	taddr := fmt.Sprintf("10.9.%d.1:%d", n, 7000+n)
	cc, err := r.node.ConnCode.CreateConnectionCode(&services.CreateConnectionCodeRequest{TargetClientID: owner, TargetAddress: "tcp://" + taddr,
		ActivationTTL: 3 * time.Hour, MappingDuration: 24 * time.Hour, Description: "c11 " + name, CreatedBy: "harness"})
	if err != nil {
		r.w.Violationf("C11:harness", "creating code %s failed: %v", name, err)
		return
	}
	o := &c11obj{kind: "code", name: name, id: cc.Code, idents: []string{cc.Code, cc.ID, taddr}, nstrong: 2, parties: map[int64]bool{owner: true}}
	r.objs = append(r.objs, o)
	if activator != 0 {
		laddr := fmt.Sprintf("0.0.0.0:%d", 17000+n)
		m, err := r.node.ConnCode.ActivateConnectionCode(&services.ActivateConnectionCodeRequest{Code: cc.Code, ListenClientID: activator, ListenAddress: laddr})
		if err != nil {
			r.w.Violationf("C11:harness", "activating code %s failed: %v", name, err)
			return
		}
		o.parties[activator] = true
		mo := &c11obj{kind: "mapping", name: mname, id: m.ID, idents: []string{m.ID}, nstrong: 1, parties: map[int64]bool{owner: true, activator: true}}
		if m.SecretKey != "" {
			mo.idents, mo.nstrong = append(mo.idents, m.SecretKey), 2
		}
		mo.idents = append(mo.idents, laddr)
		r.objs = append(r.objs, mo)
	}
}

func (r *c11run) mkDomain(name string, owner int64, sub string, n int) {
	host := fmt.Sprintf("10.9.%d.1", n)
	m, err := r.node.Domains.CreateMapping(context.Background(), owner, sub, "tunnox.net", host, 7000+n)
	if err != nil {
		r.w.Violationf("C11:harness", "creating domain %s failed: %v", name, err)
		return
	}
	r.objs = append(r.objs, &c11obj{kind: "domain", name: name, id: m.ID, sub: sub, idents: []string{m.ID, m.FullDomain, fmt.Sprintf("%s:%d", host, 7000+n)}, nstrong: 1, parties: map[int64]bool{owner: true}})
}

func (r *c11run) ofKind(kind string) []*c11obj {
	var out []*c11obj
	for _, o := range r.objs {
		if o.kind == kind && !o.gone {
			out = append(out, o)
		}
	}
	return out
}

// pick returns the step's target among the objects of a kind; nil = nonexistent.
func (r *c11run) pick(kind string, n int) *c11obj {
	l := r.ofKind(kind)
	if len(l) == 0 {
		return nil
	}
	i := n % (len(l) + 1)
	if i == len(l) {
		return nil
	}
	return l[i]
}

func (r *c11run) victimID(s *c11step) int64 {
	return []int64{r.ids["A"], r.ids["B"], r.ids["S"], r.ids["O"]}[s.victim%4]
}

// ---------------------------------------------------------------------------
// observation

func (r *c11run) snapshot() *c11snap {
	s := &c11snap{at: r.w.Now(), vals: map[string]string{}, ttl: map[string]time.Duration{}}
	m, err := r.mem.QueryByPrefix("", 0)
	if err != nil {
		r.w.Violationf("C11:harness", "store dump failed: %v", err)
		return s
	}
	keys := make([]string, 0, len(m))
	for k := range m {
		keys = append(keys, k)
	}
	sort.Strings(keys)
	for _, k := range keys {
		s.vals[k] = m[k]
		if d, err := r.mem.GetExpiration(k); err == nil {
			s.ttl[k] = d
		}
	}
	return s
}

// drain moves everything that arrived on every open transport into the inboxes.
func (r *c11run) drain() {
	for _, cc := range r.conns {
		if cc.closed {
			continue
		}
		for n := 0; n < 64 && cc.cl.Conn.Pending() > 0; n++ {
			p, ok := cc.cl.Recv(time.Second)
			if !ok {
				break
			}
			cc.inbox = append(cc.inbox, p)
		}
	}
}

func (r *c11run) clearInboxes() {
	for _, cc := range r.conns {
		cc.inbox = nil
	}
}

func c11pkt(p *packet.TransferPacket) string {
	if p.CommandPacket != nil {
		cp := p.CommandPacket
		return fmt.Sprintf("type=%d cmd=%s id=%q sender=%q body=%s", int(p.PacketType&0x3F), c11name(cp.CommandType), cp.CommandId, cp.SenderId, cp.CommandBody)
	}
	return fmt.Sprintf("type=%d payload=%s", int(p.PacketType&0x3F), string(p.Payload))
}

func c11text(ps []*packet.TransferPacket) string {
	var b strings.Builder
	for _, p := range ps {
		b.WriteString(c11pkt(p))
		b.WriteByte('\n')
	}
	return b.String()
}

func c11alnum(b byte) bool {
	return b >= '0' && b <= '9' || b >= 'a' && b <= 'z' || b >= 'A' && b <= 'Z' || b == '_'
}

// c11has reports whether ident occurs in s as a whole token.
func c11has(s, ident string) bool {
	if ident == "" {
		return false
	}
	for from := 0; ; {
		i := strings.Index(s[from:], ident)
		if i < 0 {
			return false
		}
		i += from
		j := i + len(ident)
		if (i == 0 || !c11alnum(s[i-1])) && (j == len(s) || !c11alnum(s[j])) {
			return true
		}
		from = i + 1
	}
}

// c11delta returns the part of two values that differs: for JSON arrays the
// multiset difference of elements, otherwise the multiset difference of tokens.
func c11delta(a, b string) string {
	var la, lb []json.RawMessage
	var ta, tb []string
	if json.Unmarshal([]byte(a), &la) == nil && json.Unmarshal([]byte(b), &lb) == nil && (a != "" && b != "") {
		for _, x := range la {
			ta = append(ta, string(x))
		}
		for _, x := range lb {
			tb = append(tb, string(x))
		}
	} else {
		split := func(s string) []string {
			return strings.FieldsFunc(s, func(r rune) bool {
				return strings.ContainsRune("\"\\,:{}[] \t\n", r)
			})
		}
		ta, tb = split(a), split(b)
	}
	cnt := map[string]int{}
	for _, x := range ta {
		cnt[x]++
	}
	for _, x := range tb {
		cnt[x]--
	}
	keys := make([]string, 0, len(cnt))
	for k, v := range cnt {
		if v != 0 {
			keys = append(keys, k)
		}
	}
	sort.Strings(keys)
	return strings.Join(keys, " ")
}

type c11change struct {
	key, how string
	text     string         // key + the part of the value that changed
	parties  map[int64]bool // parties of the known objects and the clients named in text
	clients  map[int64]bool // clients named in text
	names    []string
	objs     []*c11obj // known objects named in text
}

// diff lists the keys that changed between two dumps (expiry by lifetime excluded)
// and attributes each to harness-known objects and client ids.
func (r *c11run) diff(a, b *c11snap) []c11change {
	keys := map[string]bool{}
	for k := range a.vals {
		keys[k] = true
	}
	for k := range b.vals {
		keys[k] = true
	}
	sorted := make([]string, 0, len(keys))
	for k := range keys {
		sorted = append(sorted, k)
	}
	sort.Strings(sorted)
	var out []c11change
	for _, k := range sorted {
		va, ina := a.vals[k]
		vb, inb := b.vals[k]
		if ina && inb && va == vb {
			continue
		}
		ch := c11change{key: k, parties: map[int64]bool{}, clients: map[int64]bool{}}
		var text string
		switch {
		case ina && !inb:
			if d := a.ttl[k]; d > 0 && d <= b.at-a.at+time.Second {
				continue // its lifetime ended inside the window
			}
			ch.how, text = "removed", k+" "+va
		case !ina && inb:
			ch.how, text = "added", k+" "+vb
		default:
			ch.how, text = "modified", k+" "+c11delta(va, vb)
		}
		for _, o := range r.objs {
			hit := false
			for _, id := range o.idents[:o.nstrong] {
				if c11has(text, id) {
					hit = true
				}
			}
			if hit {
				ch.objs = append(ch.objs, o)
				ch.names = append(ch.names, o.name)
				for p := range o.parties {
					ch.parties[p] = true
				}
			}
		}
		for _, n := range []string{"A", "B", "S", "O", "T", "P"} {
			if c11has(text, strconv.FormatInt(r.ids[n], 10)) {
				ch.clients[r.ids[n]] = true
				ch.parties[r.ids[n]] = true
				ch.names = append(ch.names, "client."+n)
			}
		}
		ch.text = text
		out = append(out, ch)
	}
	return out
}

func (r *c11run) who(id int64) string {
	for _, n := range []string{"A", "B", "S", "O", "T", "P"} {
		if r.ids[n] == id {
			return n
		}
	}
	if id == 0 {
		return "nobody"
	}
	return fmt.Sprint(id)
}

func (r *c11run) related(x, y int64) bool {
	for _, o := range r.objs {
		if o.kind == "mapping" && !o.gone && o.parties[x] && o.parties[y] {
			return true
		}
	}
	return false
}

func c11role(snd *c11conn, o *c11obj) string {
	switch {
	case snd.id == 0:
		return "unauth"
	case o == nil:
		return "self"
	case o.parties[snd.id]:
		return "party"
	}
	return "stranger"
}

func c11success(p *packet.TransferPacket) (bool, bool) {
	if p.CommandPacket == nil {
		return false, false
	}
	var v struct {
		Success *bool `json:"success"`
	}
	if json.Unmarshal([]byte(p.CommandPacket.CommandBody), &v) != nil || v.Success == nil {
		return false, false
	}
	return *v.Success, true
}

// ---------------------------------------------------------------------------
// one plain command

func (r *c11run) body(t packet.CommandType, s *c11step, snd *c11conn) (map[string]any, *c11obj) {
	b := map[string]any{}
	var tgt *c11obj
	switch t {
	case packet.ConnectionCodeGenerate:
		b["target_address"] = fmt.Sprintf("tcp://10.8.%d.1:%d", r.seq, 6000+s.n1%1000)
		b["activation_ttl"] = 600
		b["mapping_ttl"] = 3600
		b["description"] = "c11 generated"
	case packet.ConnectionCodeList, packet.ConfigGet, packet.HTTPDomainGetBaseDomains, packet.HTTPDomainList, packet.Disconnect:
	case packet.ConnectionCodeActivate:
		tgt = r.pick("code", s.target)
		if tgt != nil {
			b["code"] = tgt.id
		} else {
			b["code"] = "zzz-zzz-zzz"
		}
		b["listen_address"] = fmt.Sprintf("0.0.0.0:%d", 20000+r.seq)
	case packet.MappingList:
		b["direction"] = []string{"", "outbound", "inbound", "both"}[s.variant%4]
	case packet.MappingGet, packet.MappingDelete, packet.TunnelTrafficReport, packet.SOCKS5TunnelRequestCmd:
		tgt = r.pick("mapping", s.target)
		if tgt != nil {
			b["mapping_id"] = tgt.id
		} else {
			b["mapping_id"] = "pm_nonexistent"
		}
		if t == packet.TunnelTrafficReport {
			b["bytes_sent"] = 1000000 + s.n1
			b["bytes_received"] = 2000000 + s.n2
			b["connections"] = 1
		}
		if t == packet.SOCKS5TunnelRequestCmd {
			b["tunnel_id"] = fmt.Sprintf("c11-tun-%d", r.seq)
			b["target_host"] = "internal.example"
			b["target_port"] = 443
			b["protocol"] = "tcp"
			b["target_client_id"] = r.victimID(s)
		}
	case packet.HTTPDomainCheckSubdomain:
		tgt = r.pick("domain", s.target)
		if tgt != nil {
			b["subdomain"] = tgt.sub
		} else {
			b["subdomain"] = fmt.Sprintf("c11free%d", r.seq)
		}
		b["base_domain"] = "tunnox.net"
	case packet.HTTPDomainGenSubdomain:
		b["base_domain"] = "tunnox.net"
	case packet.HTTPDomainCreate:
		tgt = r.pick("domain", s.target)
		if tgt != nil && s.variant == 3 {
			b["subdomain"] = tgt.sub // somebody else's (or own) taken name
		} else {
			tgt = nil
			b["subdomain"] = fmt.Sprintf("c11n%d", r.seq)
		}
		b["base_domain"] = "tunnox.net"
		b["target_url"] = fmt.Sprintf("http://127.0.0.1:%d", 9000+r.seq)
		b["description"] = "c11"
	case packet.HTTPDomainDelete:
		tgt = r.pick("domain", s.target)
		if tgt != nil {
			b["mapping_id"] = tgt.id
		} else {
			b["mapping_id"] = "hdm_99999"
		}
	case packet.DNSResolve, packet.DNSQuery:
		if s.variant%2 == 0 {
			b["target_client_id"] = -1
		} else {
			b["target_client_id"] = r.victimID(s)
		}
		if t == packet.DNSResolve {
			b["domain"] = "secret.internal.example"
			b["qtype"] = 1
		} else {
			b["query_id"] = fmt.Sprintf("q%d", r.seq)
			b["dns_server"] = "10.0.0.53:53"
			b["raw_query"] = []byte("c11-raw-query")
		}
	case packet.HTTPProxyResponse:
		b["request_id"] = fmt.Sprintf("c11-nobody-waits-%d", r.seq)
		b["status_code"] = 200
	default:
		// unknown / newly added handler: a body that names an object of every kind
		tgt = r.pick("mapping", s.target)
		if tgt != nil {
			b["mapping_id"] = tgt.id
		}
		if k := r.pick("code", s.target); k != nil {
			b["code"] = k.id
		}
		if d := r.pick("domain", s.target); d != nil {
			b["subdomain"] = d.sub
			b["base_domain"] = "tunnox.net"
		}
		b["target_client_id"] = r.victimID(s)
		b["type"] = 1
		b["payload"] = "c11"
	}
	return b, tgt
}

// c11sent is one command written to the server inside an observation window.
type c11sent struct {
	s       *c11step
	snd     *c11conn
	t       packet.CommandType
	name    string
	ptn     string
	forged  string
	role    string
	cp      *packet.CommandPacket
	pt      packet.Type
	tgt     *c11obj
	reqText string
	markers []string // strings only this command supplied (description, new subdomain, addresses)
	vals    []string // command id and the longer string values of the body (to recognise what it caused)
	werr    error
	outcome string
	holdsFn func(o *c11obj) bool
}

// prepare builds the packet of one plain command.
func (r *c11run) prepare(s *c11step, snd *c11conn, t packet.CommandType) *c11sent {
	r.seq++
	c := &c11sent{s: s, snd: snd, t: t, name: c11name(t)}
	b, tgt := r.body(t, s, snd)
	c.tgt = tgt
	// data only this command supplies: where it ends up tells whose command the server thought it was
	mark := fmt.Sprintf("c11mark%dq", r.seq)
	if _, ok := b["description"]; ok || len(b) > 0 && !c11isDNS(t) && t != packet.SOCKS5TunnelRequestCmd {
		b["description"] = mark
		c.markers = append(c.markers, mark)
	}
	for _, f := range []string{"target_address", "listen_address", "target_url"} {
		if v, ok := b[f].(string); ok {
			c.markers = append(c.markers, strings.TrimPrefix(strings.TrimPrefix(v, "tcp://"), "http://"))
		}
	}
	if sub, ok := b["subdomain"].(string); ok && (strings.HasPrefix(sub, "c11n") || strings.HasPrefix(sub, "c11free")) {
		c.markers = append(c.markers, sub) // a name this command made up
	}
	victim := r.victimID(s)
	vs := strconv.FormatInt(victim, 10)
	cp := &packet.CommandPacket{CommandType: t, CommandId: fmt.Sprintf("c11-%d", r.seq)}
	if s.forge&1 != 0 {
		cp.SenderId, cp.ReceiverId = vs, vs
		if s.variant%2 == 1 {
			cp.Token = vs
		}
		c.forged += "+fields"
	}
	if s.forge&2 != 0 {
		for _, f := range []string{"client_id", "listen_client_id", "sender_id", "source_client_id", "owner_client_id", "user_id"} {
			if _, ok := b[f]; !ok {
				b[f] = victim
			}
		}
		c.forged += "+body"
	}
	if victim == snd.id {
		c.forged = "" // claiming one's own identity is honest
	}
	bb, _ := json.Marshal(b)
	cp.CommandBody = string(bb)
	c.vals = append(c.vals, cp.CommandId)
	for _, k := range []string{"mapping_id", "tunnel_id", "query_id", "code", "domain", "description"} {
		if v, ok := b[k].(string); ok && len(v) >= 6 {
			c.vals = append(c.vals, v)
		}
	}
	if len(b) == 0 && s.variant == 2 {
		cp.CommandBody = ""
	}
	c.cp = cp
	c.pt, c.ptn = packet.JsonCommand, "json"
	if s.ptype == 1 {
		c.pt, c.ptn = packet.CommandResp, "resp"
	}
	c.reqText = cp.CommandBody + " " + cp.SenderId + " " + cp.Token
	if sub, ok := b["subdomain"].(string); ok {
		// the full domain is what the sender asked about, spelled in two fields
		c.reqText += " " + sub + "." + fmt.Sprint(b["base_domain"])
	}
	// a connection code is a bearer secret: an authenticated sender that presents it holds it
	c.holdsFn = func(o *c11obj) bool {
		return snd.id != 0 && o.kind == "code" && c11has(c.reqText, o.id)
	}
	c.role = c11role(snd, tgt)
	return c
}

func (c *c11sent) send() {
	_, c.werr = c.snd.cl.SP.WritePacket(&packet.TransferPacket{PacketType: c.pt, CommandPacket: c.cp}, false, 0)
}

func c11isDNS(t packet.CommandType) bool { return t == packet.DNSResolve || t == packet.DNSQuery }

// command: one command alone in its window.
func (r *c11run) command(s *c11step, snd *c11conn, t packet.CommandType) {
	w := r.w
	c := r.prepare(s, snd, t)
	r.drain()
	r.clearInboxes()
	before := r.snapshot()
	failAt := 0
	if s.fault > 0 {
		ops, _ := r.st.Ops()
		failAt = ops + s.fault
		r.st.FailAt = failAt
	}
	c.send()
	if s.churn && snd.name != "S" && c.werr == nil {
		// identity churn: the transport goes away while the handler goroutine may still be running
		snd.cl.Close()
		snd.closed = true
		w.Fault("sender.closed-after-send")
	}
	settle := 457 * time.Millisecond
	if c11isDNS(t) {
		settle += 6 * time.Second
	}
	w.Sleep(settle)
	r.st.FailAt = 0
	r.drain()
	after := r.snapshot()
	if s.fault > 0 {
		if ops, _ := r.st.Ops(); ops >= failAt {
			w.Probe("fault.store-error-inside-command")
		}
	}
	r.judge([]*c11sent{c}, before, after, "")
}

// overlapped: the first command's handler is held inside a storage operation
// (for less or for more than any command timeout) and a second connection's
// command is processed at a drawn point of that interval. Each command must
// still be executed, answered and recorded as its own connection's.
func (r *c11run) overlapped(s, s2 *c11step, x, y *c11conn, tx, ty packet.CommandType) {
	w := r.w
	stall := []time.Duration{3*time.Second + 113*time.Millisecond, 47*time.Second + 113*time.Millisecond, 95*time.Second + 113*time.Millisecond}[s.n1%3]
	delay := []time.Duration{211 * time.Millisecond, 33*time.Second + 211*time.Millisecond, 61*time.Second + 211*time.Millisecond}[s.n2%3]
	cx := r.prepare(s, x, tx)
	cy := r.prepare(s2, y, ty)
	r.drain()
	r.clearInboxes()
	before := r.snapshot()
	r.stallAt, r.stallFor, r.stalled = r.stOps+1+s.variant%3, stall, false
	cx.send()
	w.Sleep(delay)
	cy.send()
	settle := stall + 31*time.Second + 457*time.Millisecond
	if c11isDNS(tx) || c11isDNS(ty) {
		settle += 6 * time.Second
	}
	w.Sleep(settle)
	r.stallAt = 0
	r.drain()
	after := r.snapshot()
	how := "overlap"
	if s.twin && r.stalled {
		w.Probe("overlap.twin-requests")
	}
	if r.stalled {
		how = fmt.Sprintf("overlap[first command's handler held %v in storage, second sent after %v]", stall.Truncate(time.Second), delay.Truncate(time.Second))
		w.Probe(fmt.Sprintf("overlap.stalled.%ds.second-after-%ds", int(stall.Seconds()), int(delay.Seconds())))
		r.nontr = true
	} else {
		w.Probe("overlap.no-store-op-to-stall")
	}
	r.judge([]*c11sent{cx, cy}, before, after, how)
}

// judge applies the oracle to one observation window in which the given
// commands (of different connections when there are two) were processed.
func (r *c11run) judge(cmds []*c11sent, before, after *c11snap, how string) {
	w := r.w
	changes := r.diff(before, after)
	byID := map[string]*c11sent{}
	sender := map[*c11conn]*c11sent{}
	allUnauth := true
	for _, c := range cmds {
		byID[c.cp.CommandId] = c
		sender[c.snd] = c
		if c.snd.id != 0 {
			allUnauth = false
		}
	}
	single := len(cmds) == 1
	// outcome per command: what came back on its own transport under its own command id
	for _, c := range cmds {
		c.outcome = "silent"
		for _, p := range c.snd.inbox {
			if p.CommandPacket != nil && p.CommandPacket.CommandId != "" && p.CommandPacket.CommandId != c.cp.CommandId {
				continue
			}
			if ok, has := c11success(p); has {
				if ok {
					c.outcome = "ok"
				} else if c.outcome != "ok" {
					c.outcome = "refused"
				}
			}
		}
		if c.werr != nil {
			c.outcome = "write-failed"
		}
		pre := ""
		if !single {
			pre = how + " "
		}
		r.logf("#%s %s%s(%s) %s %s%s target=%s[%s] -> %s, %d keys changed in the window", strings.TrimPrefix(c.cp.CommandId, "c11-"), pre, c.snd.name, r.who(c.snd.id), c.name, c.ptn, c.forged, c11own(c.tgt), c.role, c.outcome, len(changes))
		ov := ""
		if !single {
			ov = "overlap."
		}
		w.State(strings.Join([]string{ov + c.name, c.role, c11own(c.tgt), c.forged, c.ptn, c.outcome}, "|"))
		w.Probe("cell." + ov + c.name + "." + c.role + "." + c.outcome)
		if (c.role == "unauth" || c.role == "stranger" || c.forged != "") && c.tgt != nil && c.werr == nil {
			r.nontr = true
		}
	}
	// bookkeeping of the model (permitted effects), whatever the verdict
	defer func() {
		for _, c := range cmds {
			if c.tgt != nil && c.snd.id != 0 && c.outcome == "ok" && c.t == packet.ConnectionCodeActivate {
				c.tgt.parties[c.snd.id] = true
			}
			if c.tgt != nil && c.tgt.parties[c.snd.id] && c.outcome == "ok" && (c.t == packet.MappingDelete || c.t == packet.HTTPDomainDelete) {
				c.tgt.gone = true
			}
		}
	}()
	detail := func() string {
		var cs []string
		for _, ch := range changes {
			cs = append(cs, fmt.Sprintf("  %s %s -> %v", ch.how, ch.key, ch.names))
		}
		var reqs, ins []string
		for _, c := range cmds {
			reqs = append(reqs, fmt.Sprintf("  %s (identity proven on that transport: %s) sent type=%s cmd=%s id=%s SenderId=%q ReceiverId=%q Token=%q body=%s", c.snd.name, r.who(c.snd.id), c.ptn, c.name, c.cp.CommandId, c.cp.SenderId, c.cp.ReceiverId, c.cp.Token, c.cp.CommandBody))
		}
		for _, cc := range r.conns {
			if len(cc.inbox) > 0 {
				ins = append(ins, fmt.Sprintf("  to %s(%s): %s", cc.name, r.who(cc.id), strings.TrimSpace(c11text(cc.inbox))))
			}
		}
		return fmt.Sprintf("%s\nrequests:\n%s\nstore changes:\n%s\npackets received per transport:\n%s\nhistory:\n%s",
			how, strings.Join(reqs, "\n"), strings.Join(cs, "\n"), strings.Join(ins, "\n"), strings.Join(r.hist, "\n"))
	}
	// the command a store change belongs to: the one whose own data it carries, else the one whose
	// request names the changed object; nil when an overlapped window does not tell
	culprit := func(ch *c11change) *c11sent {
		for _, c := range cmds {
			for _, m := range c.markers {
				if c11has(ch.text, m) {
					return c
				}
			}
		}
		for _, c := range cmds {
			for _, o := range ch.objs {
				for _, id := range o.idents {
					if c11has(c.reqText, id) {
						return c
					}
				}
			}
		}
		if single {
			return cmds[0]
		}
		return nil
	}
	sigName := func(c *c11sent) string {
		if single {
			return c.name
		}
		return c.name + ":overlapped"
	}
	// what a transport receives in an overlapped window is judged as a class of its own: which of the
	// two commands' names the wrong answer carries says nothing about the kind of failure
	rcvName := func(c *c11sent) string {
		if single {
			return c.name
		}
		return "overlapped"
	}

	// (1)/(2) state: every changed key that belongs to somebody must belong to a sender of the window;
	// a record that carries one command's own data must be recorded as that command's connection identity
	unowned := 0
	for _, ch := range changes {
		for _, c := range cmds {
			mine := false
			for _, m := range c.markers {
				if c11has(ch.text, m) {
					mine = true
				}
			}
			if mine && len(ch.clients) > 0 && !ch.clients[c.snd.id] {
				w.Violationf("C11:misattributed-record:"+sigName(c), "the record %s carries data supplied by %s's command %s but names client(s) %v and not the identity of the connection the command arrived on (%s)\n%s", ch.key, c.snd.name, c.cp.CommandId, ch.names, r.who(c.snd.id), detail())
				return
			}
		}
		if len(ch.parties) == 0 {
			unowned++
			continue
		}
		ok := false
		for _, c := range cmds {
			if c.snd.id != 0 && ch.parties[c.snd.id] {
				ok = true
			}
		}
		if ok {
			continue
		}
		sn, role := "overlapped", "unknown-sender"
		if c := culprit(&ch); c != nil {
			sn, role = sigName(c), c.role
		}
		if allUnauth {
			w.Violationf("C11:unauth:client-state-changed:"+sn, "a command from an unauthenticated connection changed client-owned state (%s %s, belongs to %v)\n%s", ch.how, ch.key, ch.names, detail())
		} else {
			w.Violationf("C11:foreign-state-changed:"+sn+":"+role, "the command changed state of objects the sending connection's identity is no party to (%s %s, belongs to %v)\n%s", ch.how, ch.key, ch.names, detail())
		}
		return
	}
	if allUnauth && unowned > 0 {
		w.Probe("unauth.unowned-state-changed." + cmds[0].name)
	}

	// (3) what each sending transport received
	for _, c := range cmds {
		cc := c.snd
		rt := c11text(cc.inbox)
		// answers and data of another connection's command must not arrive here
		for _, p := range cc.inbox {
			if p.CommandPacket == nil || !p.PacketType.IsCommandResp() {
				continue
			}
			if o := byID[p.CommandPacket.CommandId]; o != nil && o.snd != cc {
				w.Violationf("C11:reply-misrouted:"+rcvName(o), "the answer to %s's command %s was delivered to %s(%s)\n%s", o.snd.name, o.cp.CommandId, cc.name, r.who(cc.id), detail())
				return
			}
		}
		for _, o := range cmds {
			if o.snd == cc {
				continue
			}
			for _, m := range o.markers {
				if c11has(rt, m) && !c11has(c.reqText, m) && !r.visibleTo(after, m, cc.id) {
					w.Violationf("C11:reply-misrouted:"+rcvName(o), "%s(%s) received %q, data of the command %s sent on transport %s\n%s", cc.name, r.who(cc.id), m, o.cp.CommandId, o.snd.name, detail())
					return
				}
			}
		}
		// disclosure: nothing that belongs to objects the receiver is no party to may come back,
		// unless the receiver sent it itself
		for _, o := range r.objs {
			if cc.id != 0 && o.parties[cc.id] || c.holdsFn(o) {
				continue
			}
			for i, id := range o.idents {
				if c11has(rt, id) && !c11has(c.reqText, id) {
					if i >= o.nstrong && r.visibleTo(after, id, cc.id) {
						continue // a name or address that a record of the receiver's own carries as well
					}
					if cc.id == 0 {
						w.Violationf("C11:unauth:disclosed:"+rcvName(c), "an unauthenticated connection received %q of %s\n%s", id, o.name, detail())
					} else {
						w.Violationf("C11:disclosed:"+rcvName(c)+":"+c.role, "%s received %q of %s, to which it is no party\n%s", r.who(cc.id), id, o.name, detail())
					}
					return
				}
			}
		}
		// (1) unauthenticated: refused
		if cc.id == 0 && c.outcome == "ok" && !c11public[c.t] {
			w.Violationf("C11:unauth:served:"+rcvName(c), "the command was answered with success on a connection that never authenticated\n%s", detail())
			return
		}
	}

	// (4) transports that sent nothing in this window
	for _, cc := range r.conns {
		if sender[cc] != nil || len(cc.inbox) == 0 {
			continue
		}
		// the command that made the server send this: the one whose request data the packet carries
		first, firstName := cmds[0], "overlapped"
		if single {
			firstName = first.name
		} else {
			it := c11text(cc.inbox)
		search:
			for _, c := range cmds {
				for _, v := range c.vals {
					if c11has(it, v) {
						first, firstName = c, c.name+":overlapped"
						break search
					}
				}
			}
		}
		if allUnauth {
			w.Violationf("C11:unauth:packet-delivered:"+firstName, "a command from an unauthenticated connection made the server send a packet to %s(%s)\n%s", cc.name, r.who(cc.id), detail())
			return
		}
		for _, p := range cc.inbox {
			if p.CommandPacket == nil || p.CommandPacket.SenderId == "" {
				continue
			}
			ok := false
			for _, c := range cmds {
				if c.snd.id != 0 && p.CommandPacket.SenderId == strconv.FormatInt(c.snd.id, 10) {
					ok = true
				}
			}
			if !ok {
				w.Violationf("C11:reach:forged-sender-delivered:"+firstName, "the packet delivered to %s names sender %q, which is not the identity of the sending connection\n%s", cc.name, p.CommandPacket.SenderId, detail())
				return
			}
		}
		ot := c11text(cc.inbox)
		for _, o := range r.objs {
			if cc.id != 0 && o.parties[cc.id] {
				continue
			}
			for i, id := range o.idents {
				sent := i >= o.nstrong && r.visibleTo(after, id, cc.id)
				for _, c := range cmds {
					if c11has(c.reqText, id) {
						sent = true
					}
				}
				if c11has(ot, id) && !sent {
					w.Violationf("C11:reach:disclosed-to-receiver:"+firstName, "the packet delivered to %s(%s) contains %q of %s, to which the receiver is no party\n%s", cc.name, r.who(cc.id), id, o.name, detail())
					return
				}
			}
		}
		if cc.id == 0 {
			w.Violationf("C11:reach:delivered-to-unauth:"+firstName, "the server sent a packet to the unauthenticated transport %s\n%s", cc.name, detail())
			return
		}
		if c11FlagUnrelatedReach {
			rel := false
			for _, c := range cmds {
				if c.snd.id != 0 && (c.snd.id == cc.id || r.related(c.snd.id, cc.id)) {
					rel = true
				}
			}
			if !rel {
				w.Violationf("C11:reach:unrelated-client:"+firstName, "the server sent a packet to %s although no sender shares a mapping with it\n%s", r.who(cc.id), detail())
				return
			}
		}
		w.Probe("reach.delivered." + first.name)
	}

}

// visibleTo reports whether some stored record carries the string m and names
// client id as well: data another client supplied may legitimately be shown to a
// party of the record it ended up in.
func (r *c11run) visibleTo(snap *c11snap, m string, id int64) bool {
	if id == 0 {
		return false
	}
	ids := strconv.FormatInt(id, 10)
	for k, v := range snap.vals {
		if t := k + " " + v; c11has(t, m) && c11has(t, ids) {
			return true
		}
	}
	return false
}

func c11own(o *c11obj) string {
	if o == nil {
		return "none"
	}
	return o.name
}

// ---------------------------------------------------------------------------
// composite steps: somebody else answers a pending request

// rehandshake: a live, authenticated transport runs the two-phase handshake with
// the credentials of a registered client that is offline. From the success reply
// on, the identity proven on that transport is the new client.
func (r *c11run) rehandshake(x *c11conn) {
	w := r.w
	id := r.spare[0]
	old := x.id
	resp, ok := x.cl.Login(id.id, id.cl.Secret, "control")
	if !ok || resp == nil || !resp.Success {
		r.logf("%s(%s) tries to re-handshake as %s -> refused", x.name, r.who(old), id.name)
		w.Probe("rehandshake.refused")
		if !ok {
			x.closed = true
			x.cl.Close()
		}
		return
	}
	r.spare = r.spare[1:]
	x.id = id.id
	r.logf("%s re-handshakes: identity proven on that transport changes from %s to %s", x.name, r.who(old), r.who(x.id))
	w.Probe("rehandshake.ok")
	r.nontr = true
	// the server's own bookkeeping of the switch (old client offline, new client online) settles outside any window
	w.Sleep(457 * time.Millisecond)
}

// answerTarget picks the client whose answer is awaited in a composite step: B,
// or T whose link to the server may be congested (small buffer: the server's
// write of the request stays blocked until the harness reads).
func (r *c11run) answerTarget(s *c11step) *c11conn {
	b, t := r.conns[3], r.conns[5]
	if s.target%2 == 1 && !t.closed {
		return t
	}
	if b.closed && !t.closed {
		return t
	}
	return b
}

// forgedDNS: A asks the server to forward a DNS request to a target client; the
// drawn connection sends a CommandResp with the same command id twice: once
// while the forward is still on its way to the target (nothing of it has been
// read; on a congested link the server is still inside the write) and once
// while the server waits for the target's answer.
func (r *c11run) forgedDNS(s *c11step, z *c11conn, table []packet.CommandType) {
	w := r.w
	r.seq++
	a := r.conns[2]
	b := r.answerTarget(s)
	if a.closed || b.closed {
		w.Probe("forged-dns.skipped")
		return
	}
	t := packet.DNSQuery
	if s.variant%2 == 1 {
		t = packet.DNSResolve
	}
	name := c11name(t)
	cid := fmt.Sprintf("c11-dns-%d", r.seq)
	req := map[string]any{"target_client_id": b.id}
	if t == packet.DNSQuery {
		req["query_id"], req["dns_server"], req["raw_query"] = "q"+cid, "10.0.0.53:53", []byte("c11")
	} else {
		req["domain"], req["qtype"] = "bank.example", 1
	}
	rb, _ := json.Marshal(req)
	answer := func(phase int) (*packet.CommandPacket, string) {
		marker := fmt.Sprintf("6.%d.%d.%d", phase, r.seq, s.n1%250)
		var ans map[string]any
		amark := marker
		if t == packet.DNSQuery {
			ans = map[string]any{"query_id": "q" + cid, "success": true, "raw_answer": []byte(marker)}
			// []byte is base64 in JSON; look for that form in what A receives
			j, _ := json.Marshal([]byte(marker))
			amark = strings.Trim(string(j), `"`)
		} else {
			ans = map[string]any{"success": true, "ips": []string{marker}, "ttl": 60}
		}
		ab, _ := json.Marshal(ans)
		fp := &packet.CommandPacket{CommandType: t, CommandId: cid, CommandBody: string(ab)}
		if s.forge&1 != 0 {
			fp.SenderId = strconv.FormatInt(b.id, 10)
		}
		return fp, amark
	}
	r.drain()
	r.clearInboxes()
	a.cl.SendCommand(&packet.CommandPacket{CommandType: t, CommandId: cid, CommandBody: string(rb)})
	w.Sleep(97 * time.Millisecond)
	blocked := b.cl.Conn.Pending() > 0 && b.congested
	fp1, mark1 := answer(1)
	z.cl.SP.WritePacket(&packet.TransferPacket{PacketType: packet.CommandResp, CommandPacket: fp1}, false, 0)
	w.Sleep(97 * time.Millisecond)
	r.drain()
	forwarded := len(b.inbox) > 0
	w.Sleep(97 * time.Millisecond)
	fp2, mark2 := answer(2)
	z.cl.SP.WritePacket(&packet.TransferPacket{PacketType: packet.CommandResp, CommandPacket: fp2}, false, 0)
	w.Sleep(6*time.Second + 311*time.Millisecond)
	r.drain()
	at := c11text(a.inbox)
	got1, got2 := strings.Contains(at, mark1), strings.Contains(at, mark2)
	r.logf("#%d A asks %s via %s (forwarded=%v, server blocked in the forward write=%v); %s(%s) answers with the same command id during the forward and again while the server waits -> A received the first answer: %v, the second: %v", r.seq, name, b.name, forwarded, blocked, z.name, r.who(z.id), got1, got2)
	w.State("forged-" + name + "|" + z.name + "|" + b.name + fmt.Sprintf("|%v|%v|%v|%v", forwarded, blocked, got1, got2))
	if forwarded {
		r.nontr = true
		w.Probe("forged-dns.pending")
	}
	if blocked {
		w.Probe("forged-dns.answer-sent-while-forward-write-blocked")
	}
	if (got1 || got2) && z == b {
		w.Probe("forged-dns.genuine-answer-delivered")
	}
	if (got1 || got2) && z != b && z != a { // A answering its own question deceives nobody else
		cls := "stranger"
		if z.id == 0 {
			cls = "unauth"
		}
		if got1 {
			cls += ":during-forward"
		}
		w.Violationf("C11:forged-reply:"+name+":"+cls, "A's %s was forwarded to %s; an answer sent on transport %s (identity %s) was accepted as the target's answer and delivered to A\nA received:\n%s\nhistory:\n%s",
			name, b.name, z.name, r.who(z.id), at, strings.Join(r.hist, "\n"))
	}
}

// forgedHTTP: the server sends an HTTP proxy request to a target client; the
// drawn connection sends an HTTPProxyResponse with that request id twice: while
// the request is still being delivered (on a congested link the server is
// still inside the write) and while the server waits for the answer.
func (r *c11run) forgedHTTP(s *c11step, z *c11conn) {
	w := r.w
	r.seq++
	b := r.answerTarget(s)
	if b.closed {
		w.Probe("forged-http.skipped")
		return
	}
	rid := fmt.Sprintf("c11-http-%d-%d", r.seq, s.n1)
	var resp *httptypes.HTTPProxyResponse
	var rerr error
	r.drain()
	r.clearInboxes()
	t := w.Spawn(fmt.Sprintf("http-proxy-%d", r.seq), func() {
		resp, rerr = r.node.SM.SendHTTPProxyRequest(b.id, &httptypes.HTTPProxyRequest{RequestID: rid, Method: "GET", URL: "http://127.0.0.1:8080/private", Timeout: 5})
	})
	forge := func(phase int) string {
		marker := fmt.Sprintf("forged-by-%s-%d-phase%d", z.name, r.seq, phase)
		body, _ := json.Marshal(map[string]any{"request_id": rid, "status_code": 200, "body": []byte(marker)})
		z.cl.SP.WritePacket(&packet.TransferPacket{PacketType: packet.CommandResp, CommandPacket: &packet.CommandPacket{CommandType: packet.HTTPProxyResponse, CommandId: rid, CommandBody: string(body)}}, false, 0)
		return marker
	}
	w.Sleep(97 * time.Millisecond)
	blocked := b.cl.Conn.Pending() > 0 && b.congested && !t.Done()
	mark1 := forge(1)
	w.Sleep(97 * time.Millisecond)
	r.drain()
	pending := len(b.inbox) > 0
	w.Sleep(97 * time.Millisecond)
	mark2 := forge(2)
	w.Sleep(6*time.Second + 311*time.Millisecond)
	done := t.Done()
	got1 := done && rerr == nil && resp != nil && string(resp.Body) == mark1
	got2 := done && rerr == nil && resp != nil && string(resp.Body) == mark2
	r.logf("#%d server proxies an HTTP request to %s (delivered=%v, server blocked in the write=%v); %s(%s) sends the response during delivery and again while the server waits -> accepted: first=%v second=%v", r.seq, b.name, pending, blocked, z.name, r.who(z.id), got1, got2)
	w.State("forged-http|" + z.name + "|" + b.name + fmt.Sprintf("|%v|%v|%v|%v", pending, blocked, got1, got2))
	if pending {
		r.nontr = true
		w.Probe("forged-http.pending")
	}
	if blocked {
		w.Probe("forged-http.answer-sent-while-request-write-blocked")
	}
	if (got1 || got2) && z == b {
		w.Probe("forged-http.genuine-answer-accepted")
	}
	if (got1 || got2) && z != b {
		cls := "stranger"
		if z.id == 0 {
			cls = "unauth"
		}
		if got1 {
			cls += ":during-send"
		}
		w.Violationf("C11:forged-reply:http_proxy_response:"+cls, "an HTTP proxy request was sent to %s; a response sent on transport %s (identity %s) was accepted as the target's\nhistory:\n%s",
			b.name, z.name, r.who(z.id), strings.Join(r.hist, "\n"))
	}
}
