//go:build verif

package socks5

import "net"

// HandleConnectionForVerif runs the real per-connection path of the listener
// (deadline, Handshake, dispatch to the tunnel / UDP-relay creator, replies,
// close) on a connection supplied by the simulator instead of Accept.
func (l *Listener) HandleConnectionForVerif(conn net.Conn) { l.handleConnection(conn) }

// ParseUDPHeaderForVerif exposes the real UDP-associate header parser. The
// parser does not touch any relay field, so a zero relay is sufficient.
func ParseUDPHeaderForVerif(data []byte) (string, int, []byte, error) {
	return (&UDPRelay{}).parseUDPHeader(data)
}

// BuildUDPHeaderForVerif exposes the real UDP-associate header encoder.
func BuildUDPHeaderForVerif(dstHost string, dstPort int, payload []byte) []byte {
	return (&UDPRelay{}).buildUDPHeader(dstHost, dstPort, payload)
}
